(* Props/C07c.v — continuation of Props/C07.v and Props/C07b.v (audited together
   with them): property C07 on the ARRAY level, the parts C07b left open.
   Statements only; proofs live in Proofs/ReshapeArrayProofs2.v (on top of
   Proofs/ReshapeArrayProofs.v and the multi-group fuse library
   Proofs/FuseGroups.v, FuseGroupsWf.v).

   For every symmetry G with GroupLaws G and OrderLaws G, every ring (RingLaws and
   a `reqb`-decided zero where the norm / the non-zero entries are concerned), all
   ranks, all tables, all sparsity patterns:

   1. C07_fuse_content_groups: x.fuse( *groups ) with ANY list of groups of distinct
      in-range axes — several groups at once, singlet groups, empty groups
      (expanded), groups and axes in any order — returns a well-formed array with
      the same multiset of non-zero stored entries (`stored_entries`, up to
      Permutation) and the same squared norm: the boxes the stored sectors are
      written to partition the non-zero part of every fused block.
   2. C07_reshape_content: hence for EVERY plan that executes and for `a_reshape`
      itself: well-formed result, same norm, same multiset of non-zero entries.
      This discharges C07_reshape_content_full of Props/C07b.v.
   3. Round trip for ONE merged run of adjacent axes [i, i+s), s >= 2:
      C07_roundtrip_merge_one_plans (over the plans, any well-formed x): executing
      ([], [[i..i+s-1]], []) and then ([i], [], []) returns x' with the indices and
      charge of x, every stored block of x bit for bit, every other stored block
      all-zero (explicit zero blocks DO come back: witness below) and
      sem x' cs = sem x cs at every coordinate;
      C07_merge_one_forward_plan / _backward_plan: these ARE the plans
      `calc_reshape_args` returns for the target pre ++ [prod run] ++ post (every
      merged axis of size >= 2, no fused axes) and for the way back;
      C07_reshape_roundtrip_merge_one: hence for x without fused axes,
      a_reshape x merged = Some y and a_reshape y (a_shape x) = Some x' with x'
      restoring x.  The requested merged size must be the PRODUCT of the sizes
      (that is what the plan computation checks); the fused axis of a block-sparse
      array can come out smaller (witness: 12 requested, 6 obtained) and asking for
      the actual size is rejected.
   4. Several disjoint runs at once: stated (C07_reshape_roundtrip_merge_runs_full),
      NOT proved — the way back unfuses the fused axes first to last while the C05
      round trip unfuses last to first; decided on concrete block-sparse arrays
      (two adjacent runs in one fuse call; two non-adjacent runs in two calls). *)
From SV Require Import Base.Prelude Base.Sym Base.Tensor Model.Sectors Model.Array Model.Wf Model.Arith
  Model.SymInst Proofs.OrderProofs Proofs.StructProofs Proofs.FuseProofs Model.ReshapeArray
  Proofs.ReshapeArrayProofs Proofs.ReshapeArrayProofs2 Props.C07b.
From SV Require Model.ReshapeArgs Proofs.ReshapeArgsProofs.
From Coq Require Import Permutation.
Local Open Scope nat_scope.

(* ---- 1: a fuse call with several groups ---- *)
Theorem C07_fuse_core_content_groups : forall (G : Symmetry) (R : Ring), GroupLaws G -> OrderLaws G -> ZeroTest R ->
  forall (x : aarray G R) (groups : list (list nat)),
  wf_array G R x = true ->
  Forall (fun g => g <> []) groups -> NoDup (concat groups) ->
  Forall (fun ax => ax < length (indices G R x)) (concat groups) ->
  Permutation (stored_entries G R (fuse_core G R x groups)) (stored_entries G R x).
Proof. exact fuse_core_content_groups. Qed.

Theorem C07_fuse_content_groups : forall (G : Symmetry) (R : Ring),
  GroupLaws G -> OrderLaws G -> ZeroTest R -> RingLaws R ->
  forall (x : aarray G R) (groups : list (list nat)),
  wf_array G R x = true -> NoDup (concat groups) -> Forall (fun ax => ax < ndim G R x) (concat groups) ->
  wf_array G R (a_fuse G R x groups) = true /\
  a_norm2 G R (a_fuse G R x groups) = a_norm2 G R x /\
  Permutation (stored_entries G R (a_fuse G R x groups)) (stored_entries G R x).
Proof. exact fuse_content_groups_norm. Qed.

(* ---- 2: any executed plan, and reshape ---- *)
Theorem C07_exec_plan_content : forall (G : Symmetry) (R : Ring),
  GroupLaws G -> OrderLaws G -> ZeroTest R -> RingLaws R ->
  forall (p : ReshapeArgs.plan) (x y : aarray G R),
  wf_array G R x = true -> a_exec_plan G R p x = Some y ->
  wf_array G R y = true /\
  (a_norm2 G R y = a_norm2 G R x /\ Permutation (stored_entries G R y) (stored_entries G R x)).
Proof. exact exec_plan_content_full. Qed.

Theorem C07_reshape_content : forall (G : Symmetry) (R : Ring),
  GroupLaws G -> OrderLaws G -> ZeroTest R -> RingLaws R ->
  forall (x y : aarray G R) (shp : list Z),
  wf_array G R x = true -> a_reshape G R x shp = Some y ->
  wf_array G R y = true /\
  a_norm2 G R y = a_norm2 G R x /\ Permutation (stored_entries G R y) (stored_entries G R x).
Proof. exact reshape_content. Qed.

Theorem C07_reshape_content_full_proved : C07_reshape_content_full.
Proof. exact reshape_content_full_proved. Qed.

(* ---- 3: one merged run, and back ---- *)
Theorem C07_roundtrip_merge_one_plans : forall (G : Symmetry) (R : Ring), GroupLaws G -> OrderLaws G ->
  forall (x : aarray G R) (i s : nat),
  wf_array G R x = true -> 2 <= s -> i + s <= ndim G R x ->
  exists y x',
    a_exec_plan G R ([], [[seq i s]], []) x = Some y /\
    a_exec_plan G R ([i], [], []) y = Some x' /\
    y = fuse_core G R x [seq i s] /\
    wf_array G R y = true /\ wf_array G R x' = true /\
    (indices G R x' = indices G R x /\ charge G R x' = charge G R x /\
     (forall s b, In (s, b) (blocks G R x) -> lookup (list_eqb (ceqb G)) s (blocks G R x') = Some b) /\
     (forall k t, In (k, t) (blocks G R x') -> In (k, t) (blocks G R x) \/ Forall (fun v => v = r0 R) (tdata t)) /\
     (forall cs, coords_ok G (indices G R x) cs = true -> sem G R x' cs = sem G R x cs)).
Proof. exact roundtrip_merge_one_plans. Qed.

Theorem C07_merge_one_forward_plan : forall (pre run post : list Z),
  2 <= length run -> Forall (fun d => (2 <= d)%Z) run ->
  ReshapeArgs.calc_reshape_args (pre ++ run ++ post) (pre ++ ReshapeArgs.zprod run :: post)
    (map (fun _ => None) (pre ++ run ++ post))
  = ReshapeArgs.Ok ([], [[seq (length pre) (length run)]], []).
Proof. exact merge_one_forward_plan. Qed.

Theorem C07_merge_one_backward_plan : forall (pre run post : list Z) (F : Z), run <> [] ->
  ReshapeArgs.calc_reshape_args (pre ++ F :: post) (pre ++ run ++ post)
    (map (fun _ => None) pre ++ Some run :: map (fun _ => None) post)
  = ReshapeArgs.Ok ([length pre], [], []).
Proof. exact merge_one_backward_plan. Qed.

Theorem C07_reshape_roundtrip_merge_one : forall (G : Symmetry) (R : Ring), GroupLaws G -> OrderLaws G ->
  forall (x : aarray G R) (i s : nat),
  wf_array G R x = true -> Forall (fun ix => isub G ix = None) (indices G R x) ->
  2 <= s -> i + s <= ndim G R x ->
  Forall (fun ix => 2 <= size_total G ix) (firstn s (skipn i (indices G R x))) ->
  let sh := a_shape G R x in
  let merged := firstn i sh ++ ReshapeArgs.zprod (firstn s (skipn i sh)) :: skipn (i + s) sh in
  exists y x',
    a_reshape G R x merged = Some y /\
    a_reshape G R y sh = Some x' /\
    reshape_plan G R x merged = ReshapeArgs.Ok ([], [[seq i s]], []) /\
    reshape_plan G R y sh = ReshapeArgs.Ok ([i], [], []) /\
    wf_array G R y = true /\ wf_array G R x' = true /\
    (indices G R x' = indices G R x /\ charge G R x' = charge G R x /\
     (forall s b, In (s, b) (blocks G R x) -> lookup (list_eqb (ceqb G)) s (blocks G R x') = Some b) /\
     (forall k t, In (k, t) (blocks G R x') -> In (k, t) (blocks G R x) \/ Forall (fun v => v = r0 R) (tdata t)) /\
     (forall cs, coords_ok G (indices G R x) cs = true -> sem G R x' cs = sem G R x cs)).
Proof. exact reshape_roundtrip_merge_one. Qed.

(* the hypotheses hold on the sparse U1 rank-3 array ex3 (shape (3,4,3), run [1,3)):
   requested (3,12), obtained (3,6), sub-sizes (4,3) recorded, the way back returns
   ex3 itself; the actual fused size as a target is rejected *)
Theorem C07_merge_one_witness :
  wf_array U1 ZRing ex3 = true /\ Forall (fun ix => isub U1 ix = None) (indices U1 ZRing ex3) /\
  2 <= 2 /\ 1 + 2 <= ndim U1 ZRing ex3 /\
  Forall (fun ix => 2 <= size_total U1 ix) (firstn 2 (skipn 1 (indices U1 ZRing ex3))) /\
  a_shape U1 ZRing ex3 = [3; 4; 3]%Z /\ merged_shape (a_shape U1 ZRing ex3) 1 2 = [3; 12]%Z /\
  rt_check ex3 [3; 12]%Z [3; 6]%Z ([1], [], []) 3 true = true /\
  option_map (a_subsizes U1 ZRing) (a_reshape U1 ZRing ex3 [3; 12]%Z) = Some [None; Some [4; 3]%Z] /\
  reshape_plan U1 ZRing ex3 [3; 6]%Z = ReshapeArgs.ErrValue.
Proof. exact merge_one_example. Qed.

(* explicit zero blocks come back: Z2, (3,3,3,3) -> (9,3,3) -> (3,3,3,3) returns five
   blocks instead of four, the block of sector (1,0,0,1) all-zero *)
Theorem C07_merge_one_zero_block_witness :
  merged_shape (a_shape Z2 ZRing ex4) 0 2 = [9; 3; 3]%Z /\
  rt_check ex4 [9; 3; 3]%Z [5; 3; 3]%Z ([0], [], []) 5 false = true /\
  match a_reshape Z2 ZRing ex4 [9; 3; 3]%Z with
  | Some y => match a_reshape Z2 ZRing y [3; 3; 3; 3]%Z with
              | Some x' => lookup (list_eqb Z.eqb) [1; 0; 0; 1]%Z (blocks Z2 ZRing x')
              | None => None end
  | None => None end = Some (zt [2; 1; 1; 2] [0; 0; 0; 0]%Z).
Proof. exact merge_one_zero_block_example. Qed.

(* ---- 4: several runs at once: the full statement, NOT proved ---- *)
Definition C07_reshape_roundtrip_merge_runs_full : Prop := reshape_roundtrip_merge_runs_full.

(* decided on concrete arrays: two adjacent runs (one fuse call with two groups,
   unfused first to last) and two non-adjacent runs (two fuse calls) *)
Theorem C07_merge_runs_adjacent_witness :
  merged_runs (a_shape Z2 ZRing ex4) [2; 2] = [9; 9]%Z /\
  reshape_plan Z2 ZRing ex4 [9; 9]%Z = ReshapeArgs.Ok ([], [[[0; 1]; [2; 3]]], []) /\
  rt_check ex4 [9; 9]%Z [5; 5]%Z ([0; 2], [], []) 5 false = true.
Proof. exact merge_runs_adjacent_example. Qed.

Theorem C07_merge_runs_two_calls_witness :
  wf_array Z2 ZRing ex5 = true /\ Forall (fun ix => isub Z2 ix = None) (indices Z2 ZRing ex5) /\
  Forall (fun ix => 2 <= size_total Z2 ix) (indices Z2 ZRing ex5) /\
  merged_runs (a_shape Z2 ZRing ex5) [2; 1; 2] = [4; 2; 4]%Z /\
  reshape_plan Z2 ZRing ex5 [4; 2; 4]%Z = ReshapeArgs.Ok ([], [[[0; 1]]; [[2; 3]]], []) /\
  rt_check ex5 [4; 2; 4]%Z [4; 2; 3]%Z ([0; 3], [], []) 10 false = true.
Proof. exact merge_runs_two_calls_example. Qed.

Print Assumptions C07_fuse_core_content_groups.
Print Assumptions C07_fuse_content_groups.
Print Assumptions C07_exec_plan_content.
Print Assumptions C07_reshape_content.
Print Assumptions C07_reshape_content_full_proved.
Print Assumptions C07_roundtrip_merge_one_plans.
Print Assumptions C07_merge_one_forward_plan.
Print Assumptions C07_merge_one_backward_plan.
Print Assumptions C07_reshape_roundtrip_merge_one.
Print Assumptions C07_merge_one_witness.
Print Assumptions C07_merge_one_zero_block_witness.
Print Assumptions C07_merge_runs_adjacent_witness.
Print Assumptions C07_merge_runs_two_calls_witness.
