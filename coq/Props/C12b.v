(* Props/C12b.v — property C12, continuation: every value returned by svd / eigh IS a singular
   value / an eigenvalue of the DENSE matrix, with an explicit dense singular / eigen vector;
   the dense factors are orthonormal across charges; the values are counted.
   ONLY restatements of lemmas of Proofs/SpectrumProofs.v.

   Shape of every theorem (as in Props/C11.v, C11b.v, C13b.v): ORACLE CONTRACT of the per-block
   LAPACK routine (function parameter; explicit hypotheses) => statement about the dense forms
   (`sem` = entry of the dense embedding at (charge, offset) coordinates, `vsem` = entry of a
   block vector).  Contracts used:
     svd_shapes / svd_product  (C11: a x b |-> a x k, k, k x b;  (u . diag s) . vh = m entrywise)
     orth_cols (U block), orth_rows (Vh block)   (LinalgProofs.Full, as in C13b_error_identity)
     svd_reduced   tshape s = [min(a, b)]   (numpy's reduced factorisation; only for the min count)
     eigh_shapes / eigh_product (C11b)  and  eigh_eigen:  m . v = v . diag(w) entrywise,
       which C12b_eigen_contract_from_product derives from eigh_product + orth_cols of the v block.
   Ring: any commutative ring with conjugation (`CRingLaws`, instances C11b_ring_Z / C11b_ring_Gauss).
   `cltb_*`: the order on charge labels is a strict total order (true for the built-in symmetries).

   C12b_singular_triples_dense   for EVERY coordinate k of the bond index of u:
        x . vh_k^H = s_k u_k   and   u_k^H . x = s_k vh_k      (sums over ALL coordinates of x's indices)
   C12b_dense_factors_orthonormal   u_k^H u_k' = delta_kk' and vh_k vh_k'^H = delta_kk' for all bond
        coordinates, also across different bond charges (disjoint supports: in a valid matrix the
        column charge determines the row charge, C11_column_charge_determines_block)
   C12b_singular_count   #values = #coordinates of the bond = sum over stored blocks of min(rows, cols)
   C12b_eigenpairs_dense   x . v_k = w_k v_k for every coordinate k of the second index
   C12b_eigvecs_orthonormal   the columns of v on the stored sectors are orthonormal (so non-zero)
   C12b_eigen_count   #eigenvalues = size of the second index on the stored (diagonal) sectors
   Instances: SpectrumProofs.SpectrumEx (Gaussian integers, Z2, monomial unitary blocks).

   NOT formalised (`C12_full2` below states it, per ring): that a family of values with these
   properties is determined by the matrix as a multiset.  This is uniqueness of the singular
   values / of the roots of the characteristic polynomial over the real / complex field; the ring
   here is an arbitrary commutative ring with conjugation.  The harness oracle compares with
   numpy.linalg.svd / eigvalsh of the own dense embedding instead (tolerance). *)
From SV Require Import Base.Prelude Base.Sym Base.Tensor Model.Sectors Model.Array Model.Arith Model.Wf Model.Linalg
  Proofs.Tdot Proofs.StructProofs Proofs.LinalgProofs Proofs.LinalgProofs2 Proofs.SpectrumProofs.
From Coq Require Import Permutation.
Local Open Scope nat_scope.

Theorem C12b_singular_triples_dense :
  forall (G : Symmetry) (HG : GroupLaws G) (R : Ring) (CL : CRingLaws R)
    (cltb_irrefl : forall c : C G, cltb G c c = false)
    (cltb_trans : forall a b c : C G, cltb G a b = true -> cltb G b c = true -> cltb G a c = true)
    (cltb_total : forall a b : C G, a <> b -> cltb G a b = true \/ cltb G b a = true)
    (svd_blk : tensor R -> tensor R * tensor R * tensor R) (Hshapes : svd_shapes R svd_blk)
    (x u : aarray G R) (s : bvec G R) (vh : aarray G R),
    wf_array G R x = true -> ndim G R x = 2 ->
    (forall sec m, In (sec, m) (blocks G R x) ->
       svd_product R svd_blk m /\ orth_cols R (fst (svd_uv R svd_blk m)) /\ orth_rows R (snd (svd_uv R svd_blk m))) ->
    a_svd G R svd_blk x = Some (u, s, vh) ->
    forall k, coords_ok G [ix1 G R u] [k] = true ->
      (forall i, coords_ok G [ix0 G R x] [i] = true ->
         rsum R (map (fun j => rmul R (sem G R x [i; j]) (rconj R (sem G R vh [k; j]))) (index_coords G (ix1 G R x)))
         = rmul R (vsem G R s k) (sem G R u [i; k])) /\
      (forall j, coords_ok G [ix1 G R x] [j] = true ->
         rsum R (map (fun i => rmul R (rconj R (sem G R u [i; k])) (sem G R x [i; j])) (index_coords G (ix0 G R x)))
         = rmul R (vsem G R s k) (sem G R vh [k; j])).
Proof. exact singular_triples_dense. Qed.

Theorem C12b_dense_factors_orthonormal :
  forall (G : Symmetry) (HG : GroupLaws G) (R : Ring) (CL : CRingLaws R)
    (cltb_irrefl : forall c : C G, cltb G c c = false)
    (cltb_trans : forall a b c : C G, cltb G a b = true -> cltb G b c = true -> cltb G a c = true)
    (cltb_total : forall a b : C G, a <> b -> cltb G a b = true \/ cltb G b a = true)
    (svd_blk : tensor R -> tensor R * tensor R * tensor R) (Hshapes : svd_shapes R svd_blk)
    (x u : aarray G R) (s : bvec G R) (vh : aarray G R),
    wf_array G R x = true -> ndim G R x = 2 ->
    (forall sec m, In (sec, m) (blocks G R x) ->
       orth_cols R (fst (svd_uv R svd_blk m)) /\ orth_rows R (snd (svd_uv R svd_blk m))) ->
    a_svd G R svd_blk x = Some (u, s, vh) ->
    forall k k', coords_ok G [ix1 G R u] [k] = true -> coords_ok G [ix1 G R u] [k'] = true ->
      rsum R (map (fun i => rmul R (rconj R (sem G R u [i; k])) (sem G R u [i; k'])) (index_coords G (ix0 G R x)))
      = (if ceqb G (fst k) (fst k') && Nat.eqb (snd k) (snd k') then r1 R else r0 R) /\
      rsum R (map (fun j => rmul R (sem G R vh [k; j]) (rconj R (sem G R vh [k'; j]))) (index_coords G (ix1 G R x)))
      = (if ceqb G (fst k) (fst k') && Nat.eqb (snd k) (snd k') then r1 R else r0 R).
Proof. exact dense_factors_orthonormal. Qed.

(* vcount s = sum of the declared lengths of the stored value blocks *)
Theorem C12b_singular_count :
  forall (G : Symmetry) (HG : GroupLaws G) (R : Ring)
    (svd_blk : tensor R -> tensor R * tensor R * tensor R) (Hshapes : svd_shapes R svd_blk)
    (x u : aarray G R) (s : bvec G R) (vh : aarray G R),
    wf_array G R x = true -> ndim G R x = 2 ->
    a_svd G R svd_blk x = Some (u, s, vh) ->
    vcount G R s = length (index_coords G (ix1 G R u)) /\
    (svd_reduced R svd_blk ->
     vcount G R s = list_sum (map (fun sb : list (C G) * tensor R =>
                                     Nat.min (size_of G (ix0 G R x) (row_charge G (fst sb)))
                                             (size_of G (ix1 G R x) (col_charge G (fst sb)))) (blocks G R x))).
Proof. exact singular_count. Qed.

Theorem C12b_eigenpairs_dense :
  forall (G : Symmetry) (HG : GroupLaws G) (R : Ring) (CL : CRingLaws R)
    (cltb_irrefl : forall c : C G, cltb G c c = false)
    (cltb_trans : forall a b c : C G, cltb G a b = true -> cltb G b c = true -> cltb G a c = true)
    (eigh_blk : tensor R -> tensor R * tensor R) (x : aarray G R) (w : bvec G R) (v : aarray G R),
    wf_array G R x = true -> ndim G R x = 2 -> charge G R x = ident G -> herm_structured G R x ->
    eigh_shapes R eigh_blk ->
    (forall s m, In (s, m) (blocks G R x) -> eigh_eigen R eigh_blk m) ->
    a_eigh G R eigh_blk x = Some (w, v) ->
    forall i k, coords_ok G [ix0 G R x] [i] = true -> coords_ok G [ix1 G R x] [k] = true ->
      rsum R (map (fun j => rmul R (sem G R x [i; j]) (sem G R v [j; k])) (index_coords G (ix1 G R x)))
      = rmul R (vsem G R w k) (sem G R v [i; k]).
Proof. exact eigenpairs_dense. Qed.

(* the eigen-pair contract follows from the product contract of C11b and orthonormal columns *)
Theorem C12b_eigen_contract_from_product :
  forall (R : Ring) (CL : CRingLaws R) (eigh_blk : tensor R -> tensor R * tensor R) (m : tensor R) (n : nat),
    tshape m = [n; n] -> tshape (snd (eigh_blk m)) = [n; n] ->
    eigh_product R eigh_blk m -> orth_cols R (snd (eigh_blk m)) -> eigh_eigen R eigh_blk m.
Proof. exact eigen_of_product. Qed.

Theorem C12b_eigenpairs_dense_from_product :
  forall (G : Symmetry) (HG : GroupLaws G) (R : Ring) (CL : CRingLaws R)
    (cltb_irrefl : forall c : C G, cltb G c c = false)
    (cltb_trans : forall a b c : C G, cltb G a b = true -> cltb G b c = true -> cltb G a c = true)
    (eigh_blk : tensor R -> tensor R * tensor R) (x : aarray G R) (w : bvec G R) (v : aarray G R),
    wf_array G R x = true -> ndim G R x = 2 -> charge G R x = ident G -> herm_structured G R x ->
    eigh_shapes R eigh_blk ->
    (forall s m, In (s, m) (blocks G R x) -> eigh_product R eigh_blk m /\ orth_cols R (snd (eigh_blk m))) ->
    a_eigh G R eigh_blk x = Some (w, v) ->
    forall i k, coords_ok G [ix0 G R x] [i] = true -> coords_ok G [ix1 G R x] [k] = true ->
      rsum R (map (fun j => rmul R (sem G R x [i; j]) (sem G R v [j; k])) (index_coords G (ix1 G R x)))
      = rmul R (vsem G R w k) (sem G R v [i; k]).
Proof. exact eigenpairs_dense_from_product. Qed.

Theorem C12b_eigvecs_orthonormal :
  forall (G : Symmetry) (HG : GroupLaws G) (R : Ring) (CL : CRingLaws R)
    (cltb_irrefl : forall c : C G, cltb G c c = false)
    (cltb_trans : forall a b c : C G, cltb G a b = true -> cltb G b c = true -> cltb G a c = true)
    (eigh_blk : tensor R -> tensor R * tensor R) (x : aarray G R) (w : bvec G R) (v : aarray G R),
    wf_array G R x = true -> ndim G R x = 2 -> charge G R x = ident G -> herm_structured G R x ->
    eigh_shapes R eigh_blk ->
    (forall s m, In (s, m) (blocks G R x) -> orth_cols R (snd (eigh_blk m))) ->
    a_eigh G R eigh_blk x = Some (w, v) ->
    forall k k', coords_ok G [ix1 G R x] [k] = true -> coords_ok G [ix1 G R x] [k'] = true ->
      In [fst k; fst k] (sectors G R x) -> In [fst k'; fst k'] (sectors G R x) ->
      rsum R (map (fun i => rmul R (rconj R (sem G R v [i; k])) (sem G R v [i; k'])) (index_coords G (ix0 G R x)))
      = if ceqb G (fst k) (fst k') && Nat.eqb (snd k) (snd k') then r1 R else r0 R.
Proof. exact eigvecs_orthonormal. Qed.

Theorem C12b_eigen_count :
  forall (G : Symmetry) (HG : GroupLaws G) (R : Ring) (eigh_blk : tensor R -> tensor R * tensor R)
    (x : aarray G R) (w : bvec G R) (v : aarray G R),
    wf_array G R x = true -> ndim G R x = 2 -> charge G R x = ident G -> herm_structured G R x ->
    eigh_shapes R eigh_blk ->
    a_eigh G R eigh_blk x = Some (w, v) ->
    vcount G R w = list_sum (map (fun s : list (C G) => size_of G (ix1 G R x) (col_charge G s)) (sectors G R x)).
Proof. exact eigen_count. Qed.

(* what remains, NOT proved (see the header): the multiset of values is determined by the matrix *)
Definition C12_full2 (R : Ring) : Prop := SpectrumProofs.C12_full2 R.

Print Assumptions C12b_singular_triples_dense.
Print Assumptions C12b_dense_factors_orthonormal.
Print Assumptions C12b_singular_count.
Print Assumptions C12b_eigenpairs_dense.
Print Assumptions C12b_eigen_contract_from_product.
Print Assumptions C12b_eigenpairs_dense_from_product.
Print Assumptions C12b_eigvecs_orthonormal.
Print Assumptions C12b_eigen_count.
