(* Props/C13b.v — property C13, continuation: the FACTORS of the truncated svd
   (Model/Truncate.v on top of Model/Linalg.v's a_svd and Model/Trunc.v's counts).
   ONLY restatements of lemmas of Proofs/LinalgProofs2.v.

   `a_svd_truncated x counts mode`: svd, slice every block to its count (`U[:, :n]`, `s[:n]`,
   `VH[:n, :]`), drop the sectors with count 0, rebuild the bond tables from the counts,
   absorb (mode = Some AbsLeft | AbsBoth | AbsRight) or return the values (mode = None).
   `counts` = the per-sector numbers of kept values in the order of `U.sectors`, i.e. the
   output of Trunc.sub_max_bonds; `counts_ok`: one count per stored block, none above the
   block's number of singular values (C13_no_cutoff_bond_dimension / keep_count <= length).
   Oracles: `svd_blk` with `svd_shapes` / `svd_product` (as in C11), `sqrt_blk` with
   `sqrt_ok` (sqrt(s) * sqrt(s) = s entrywise on the kept values).  Ring: `CRingLaws`.

   trunc_wf_spec x counts b U' VH' (LinalgProofs2.TruncSpec): both factors `wf_array`
   (in particular every block has the shape its tables prescribe), U' = (ix0 x, b) with x's
   charge, VH' = (conj b, ix1 x) with charge identity, b has the direction of x's second index,
   no sub-index info, a sorted table that is a permutation of (column charge, count) of the
   surviving blocks, size_of b (column charge) = count for EVERY block (0 for the dropped
   ones), surviving sectors keep their order.  trunc_s_spec: S keyed by the kept charges.

   C13b_error_identity: with the orthonormality contracts of the per-block routine added
   (`orth_cols` of every U block, `orth_rows` of every Vh block: LinalgProofs.Full), the squared
   Frobenius norm of x - product over ALL coordinates equals the sum of the discarded |s|^2
   (different bond charges have disjoint supports, so the factors are orthonormal across
   blocks: LinalgProofs2.gram_u / gram_v).  Instance: LinalgProofs2.ErrEx (error 81). *)
From SV Require Import Base.Prelude Base.Sym Base.Tensor Model.Sectors Model.Array Model.Arith Model.Wf Model.Linalg Model.Truncate
  Proofs.Tdot Proofs.StructProofs Proofs.LinalgProofs Proofs.LinalgProofs2.
Local Open Scope nat_scope.

Theorem C13b_truncated_wf :
  forall (G : Symmetry) (HG : GroupLaws G) (R : Ring)
    (cltb_irrefl : forall c : C G, cltb G c c = false)
    (cltb_trans : forall a b c : C G, cltb G a b = true -> cltb G b c = true -> cltb G a c = true)
    (cltb_total : forall a b : C G, a <> b -> cltb G a b = true \/ cltb G b a = true)
    (svd_blk : tensor R -> tensor R * tensor R * tensor R) (Hshapes : svd_shapes R svd_blk)
    (sqrt_blk : tensor R -> tensor R) (x : aarray G R) (counts : list nat),
    wf_array G R x = true -> ndim G R x = 2 -> counts_ok G R svd_blk x counts ->
    exists b U' S' VH',
      a_svd_truncated G R svd_blk sqrt_blk x counts None = Some (U', Some S', VH') /\
      trunc_wf_spec G R x counts b U' VH' /\ trunc_s_spec G R b U' S' /\
      forall mode, exists U'' VH'',
        a_svd_truncated G R svd_blk sqrt_blk x counts (Some mode) = Some (U'', None, VH'') /\
        trunc_wf_spec G R x counts b U'' VH''.
Proof. exact truncated_wf. Qed.

(* the truncated product is the full svd sum restricted to the KEPT bond coordinates *)
Theorem C13b_truncated_product :
  forall (G : Symmetry) (HG : GroupLaws G) (R : Ring) (CL : CRingLaws R)
    (cltb_irrefl : forall c : C G, cltb G c c = false)
    (cltb_trans : forall a b c : C G, cltb G a b = true -> cltb G b c = true -> cltb G a c = true)
    (cltb_total : forall a b : C G, a <> b -> cltb G a b = true \/ cltb G b a = true)
    (svd_blk : tensor R -> tensor R * tensor R * tensor R) (Hshapes : svd_shapes R svd_blk)
    (sqrt_blk : tensor R -> tensor R)
    (x u : aarray G R) (s : bvec G R) (vh : aarray G R) (counts : list nat) (mode : absorb_mode) (l rr : coord G),
    wf_array G R x = true -> ndim G R x = 2 -> counts_ok G R svd_blk x counts ->
    a_svd G R svd_blk x = Some (u, s, vh) ->
    (mode = AbsBoth -> sqrt_ok G R svd_blk x counts sqrt_blk) ->
    coords_ok G [ix0 G R x] [l] = true -> coords_ok G [ix1 G R x] [rr] = true ->
    exists U' VH' res,
      a_svd_truncated G R svd_blk sqrt_blk x counts (Some mode) = Some (U', None, VH') /\
      a_matmul G R U' VH' = Some res /\
      sem G R res [l; rr] = usv_sum G R u s vh (index_coords G (ix1 G R U')) l rr.
Proof. exact truncated_product. Qed.

(* the three absorb modes give products with equal entries at every coordinate *)
Theorem C13b_absorb_equal :
  forall (G : Symmetry) (HG : GroupLaws G) (R : Ring) (CL : CRingLaws R)
    (cltb_irrefl : forall c : C G, cltb G c c = false)
    (cltb_trans : forall a b c : C G, cltb G a b = true -> cltb G b c = true -> cltb G a c = true)
    (cltb_total : forall a b : C G, a <> b -> cltb G a b = true \/ cltb G b a = true)
    (svd_blk : tensor R -> tensor R * tensor R * tensor R) (Hshapes : svd_shapes R svd_blk)
    (sqrt_blk : tensor R -> tensor R)
    (x : aarray G R) (counts : list nat) (m1 m2 : absorb_mode) (l rr : coord G),
    wf_array G R x = true -> ndim G R x = 2 -> counts_ok G R svd_blk x counts ->
    sqrt_ok G R svd_blk x counts sqrt_blk ->
    coords_ok G [ix0 G R x] [l] = true -> coords_ok G [ix1 G R x] [rr] = true ->
    exists U1 VH1 U2 VH2 r1 r2,
      a_svd_truncated G R svd_blk sqrt_blk x counts (Some m1) = Some (U1, None, VH1) /\
      a_svd_truncated G R svd_blk sqrt_blk x counts (Some m2) = Some (U2, None, VH2) /\
      a_matmul G R U1 VH1 = Some r1 /\ a_matmul G R U2 VH2 = Some r2 /\
      sem G R r1 [l; rr] = sem G R r2 [l; rr].
Proof. exact absorb_equal. Qed.

(* x = truncated product + the DISCARDED terms of the svd sum *)
Theorem C13b_truncated_residual :
  forall (G : Symmetry) (HG : GroupLaws G) (R : Ring) (CL : CRingLaws R)
    (cltb_irrefl : forall c : C G, cltb G c c = false)
    (cltb_trans : forall a b c : C G, cltb G a b = true -> cltb G b c = true -> cltb G a c = true)
    (cltb_total : forall a b : C G, a <> b -> cltb G a b = true \/ cltb G b a = true)
    (svd_blk : tensor R -> tensor R * tensor R * tensor R) (Hshapes : svd_shapes R svd_blk)
    (sqrt_blk : tensor R -> tensor R)
    (x u : aarray G R) (s : bvec G R) (vh : aarray G R) (counts : list nat) (mode : absorb_mode) (l rr : coord G),
    wf_array G R x = true -> ndim G R x = 2 -> counts_ok G R svd_blk x counts ->
    (forall sec m, In (sec, m) (blocks G R x) -> svd_product R svd_blk m) ->
    a_svd G R svd_blk x = Some (u, s, vh) ->
    (mode = AbsBoth -> sqrt_ok G R svd_blk x counts sqrt_blk) ->
    coords_ok G [ix0 G R x] [l] = true -> coords_ok G [ix1 G R x] [rr] = true ->
    exists U' VH' res,
      a_svd_truncated G R svd_blk sqrt_blk x counts (Some mode) = Some (U', None, VH') /\
      a_matmul G R U' VH' = Some res /\
      sem G R res [l; rr] = usv_sum G R u s vh (index_coords G (ix1 G R U')) l rr /\
      sem G R x [l; rr] = radd R (sem G R res [l; rr]) (usv_sum G R u s vh (disc_coords G R svd_blk x counts) l rr).
Proof. exact truncated_residual. Qed.

(* the discarded coordinates: (column charge, o) with count <= o < number of singular values *)
Theorem C13b_discarded_coordinates :
  forall (G : Symmetry) (R : Ring) (svd_blk : tensor R -> tensor R * tensor R * tensor R)
    (x : aarray G R) (counts : list nat) (c : C G) (o : nat),
    In (c, o) (disc_coords G R svd_blk x counts) <->
    exists (sb : list (C G) * tensor R) n, In (sb, n) (List.combine (blocks G R x) counts) /\ c = col_charge G (fst sb) /\
                         n <= o < n + (ncols R (fst (svd_uv R svd_blk (snd sb))) - n).
Proof. exact disc_coords_spec. Qed.

(* squared Frobenius norm of the truncation error = sum of the discarded squared singular values *)
Theorem C13b_error_identity :
  forall (G : Symmetry) (R : Ring) (svd_blk : tensor R -> tensor R * tensor R * tensor R) (sqrt_blk : tensor R -> tensor R)
         (x u : aarray G R) (s : bvec G R) (vh : aarray G R) (counts : list nat) (mode : absorb_mode)
         (U' VH' res : aarray G R),
    GroupLaws G -> CRingLaws R ->
    (forall c : C G, cltb G c c = false) ->
    (forall a b c : C G, cltb G a b = true -> cltb G b c = true -> cltb G a c = true) ->
    (forall a b : C G, a <> b -> cltb G a b = true \/ cltb G b a = true) ->
    svd_shapes R svd_blk ->
    wf_array G R x = true -> ndim G R x = 2 -> counts_ok G R svd_blk x counts ->
    (forall sec m, In (sec, m) (blocks G R x) ->
       svd_product R svd_blk m /\ orth_cols R (fst (svd_uv R svd_blk m)) /\ orth_rows R (snd (svd_uv R svd_blk m))) ->
    a_svd G R svd_blk x = Some (u, s, vh) ->
    (mode = AbsBoth -> sqrt_ok G R svd_blk x counts sqrt_blk) ->
    a_svd_truncated G R svd_blk sqrt_blk x counts (Some mode) = Some (U', None, VH') ->
    a_matmul G R U' VH' = Some res ->
    rsum R (map (fun cs => let d := radd R (sem G R x cs) (rneg R (sem G R res cs)) in rmul R d (rconj R d))
                (all_coords G (indices G R x)))
    = rsum R (map (fun k => rmul R (vsem G R s k) (rconj R (vsem G R s k))) (disc_coords G R svd_blk x counts)).
Proof. exact error_identity. Qed.

Print Assumptions C13b_truncated_wf.
Print Assumptions C13b_truncated_product.
Print Assumptions C13b_absorb_equal.
Print Assumptions C13b_truncated_residual.
Print Assumptions C13b_discarded_coordinates.
Print Assumptions C13b_error_identity.
