(* Props/C07b.v — continuation of Props/C07.v (audited together with it):
   property C07 on the ARRAY level.  Statements only; proofs live in
   Proofs/ReshapeArrayProofs.v, the model of AbelianArray.reshape in
   Model/ReshapeArray.v (`a_reshape`: subsizes from the indices, the model
   `calc_reshape_args` of the plan computation, then the three loops
   unfuse / fuse / expand_dims of the method).

   For every symmetry G with GroupLaws G and OrderLaws G, every ring with
   RingLaws and a `reqb`-decided zero (ZeroTest; shown for ZRing and GRing), all
   ranks, all tables, all sparsity patterns:

   A. every elementary step of an executed plan keeps the multiset of the non-zero
      entries of all stored blocks (`stored_entries`, a list up to Permutation),
      hence the squared norm, and keeps `wf_array`:
        unfuse      every block is cut into its sub-blocks along the ranges of
                    the extent table (they partition the fused axis);
        fuse        ONE group of >= 2 distinct axes (C05 single-group layout):
                    every fused block = relocated sub-blocks + zeros;
        expand_dims the data of every block is untouched.
   B. hence for EVERY plan that executes — no dependence on how it was computed —
      and for `a_reshape` itself: same norm, same multiset of non-zero entries.
      PARTIAL: every fuse call of the plan must have a single group
      (`plan_single_groups`); a call fusing several adjacent groups at once is
      outside the C05 theorems this rests on (full statement at the end).
   C. reshape to the current shape is the identity whenever no fused axis has
      its sub-sizes spelled out by the shape at its own position (`no_match`; in
      particular for arrays without fused axes); the excluded family is the known
      finding F12 — refuted on a concrete array below.
   D. simulation: the array executor is simulated by the plan executor on index
      trees of Props/C07.v (`exec_plan`): run on the trees `skel` of the indices it
      ends in the trees of the result's indices (up to `strip`: original-axis
      identities forgotten, a fresh axis = a size-one leaf); a well-formed index
      is never larger than its tree (`size_total <= tsize (skel ix)`: distinct
      tuples of sub-charges — the sum of the products is at most the product of
      the sums); hence rank and axis sizes of the result of reshape are bounded
      by the tree run, and equal `length shp` / at most `nth k shp` whenever the
      tree run has the requested shape (which Props/C07.v proves over the
      property's finite domain).  PARTIAL as in B (single-group fuse calls). *)
From SV Require Import Base.Prelude Base.Sym Base.Tensor Model.Sectors Model.Array Model.Wf Model.Arith
  Model.SymInst Proofs.OrderProofs Proofs.StructProofs Model.ReshapeArray Proofs.ReshapeArrayProofs.
From SV Require Model.ReshapeArgs Proofs.ReshapeArgsProofs Proofs.ReshapePlanProofs.
From Coq Require Import Permutation.
Local Open Scope nat_scope.

(* the zero test of the two exact rings of the correspondence *)
Theorem C07_ZRing_zero_test : ZeroTest ZRing. Proof. exact ZRing_zero_test. Qed.
Theorem C07_GRing_zero_test : ZeroTest GRing. Proof. exact GRing_zero_test. Qed.

(* the squared norm is a function of the multiset of non-zero stored entries *)
Theorem C07_norm_of_entries : forall (G : Symmetry) (R : Ring), ZeroTest R -> RingLaws R ->
  forall y x : aarray G R,
  Permutation (stored_entries G R y) (stored_entries G R x) -> a_norm2 G R y = a_norm2 G R x.
Proof. exact norm_of_entries. Qed.

(* ---- A: the three steps ---- *)
Theorem C07_unfuse_content : forall (G : Symmetry) (R : Ring),
  GroupLaws G -> OrderLaws G -> ZeroTest R -> RingLaws R ->
  forall (x y : aarray G R) (ax : nat),
  wf_array G R x = true -> a_unfuse G R x ax = Some y ->
  wf_array G R y = true /\
  (a_norm2 G R y = a_norm2 G R x /\ Permutation (stored_entries G R y) (stored_entries G R x)) /\
  exists subs ext, isub G (nth ax (indices G R x) (dflt_index G)) = Some (subs, ext) /\
                   indices G R y = replace_with_seq (indices G R x) ax subs.
Proof. exact unfuse_content. Qed.

Theorem C07_fuse_content : forall (G : Symmetry) (R : Ring), GroupLaws G -> OrderLaws G -> ZeroTest R ->
  forall (x : aarray G R) (g : list nat),
  wf_array G R x = true -> NoDup g -> Forall (fun ax => ax < ndim G R x) g -> 2 <= length g ->
  Permutation (stored_entries G R (a_fuse G R x [g])) (stored_entries G R x).
Proof. exact fuse_content. Qed.

Theorem C07_expand_dims_content : forall (G : Symmetry) (R : Ring) (x : aarray G R) (axis : nat),
  stored_entries G R (a_expand_dims G R x axis) = stored_entries G R x.
Proof. exact expand_dims_content. Qed.

(* ---- B: any executed plan, and reshape ---- *)
Theorem C07_exec_plan_content_partial : forall (G : Symmetry) (R : Ring),
  GroupLaws G -> OrderLaws G -> ZeroTest R -> RingLaws R ->
  forall (p : ReshapeArgs.plan) (x y : aarray G R),
  wf_array G R x = true -> plan_single_groups p = true -> a_exec_plan G R p x = Some y ->
  wf_array G R y = true /\
  (a_norm2 G R y = a_norm2 G R x /\ Permutation (stored_entries G R y) (stored_entries G R x)).
Proof. exact exec_plan_content. Qed.

Theorem C07_reshape_content_partial : forall (G : Symmetry) (R : Ring),
  GroupLaws G -> OrderLaws G -> ZeroTest R -> RingLaws R ->
  forall (x y : aarray G R) (shp : list Z),
  wf_array G R x = true -> a_reshape G R x shp = Some y ->
  (forall p, reshape_plan G R x shp = ReshapeArgs.Ok p -> plan_single_groups p = true) ->
  wf_array G R y = true /\
  a_norm2 G R y = a_norm2 G R x /\ Permutation (stored_entries G R y) (stored_entries G R x).
Proof. exact reshape_content_partial. Qed.

(* the full statement, NOT proved: missing is a fuse call with several groups at
   once (the plan computation fuses adjacent groups simultaneously), which the
   single-group C05 layout theorem does not cover *)
Definition C07_reshape_content_full : Prop := reshape_content_full.

(* ---- C: reshape to the current shape ---- *)
Theorem C07_reshape_identity_no_match : forall (G : Symmetry) (R : Ring) (x : aarray G R),
  ReshapeArgsProofs.no_match (a_shape G R x) (a_subsizes G R x) ->
  a_reshape G R x (a_shape G R x) = Some x.
Proof. exact reshape_identity_no_match. Qed.

Theorem C07_reshape_identity_no_fused : forall (G : Symmetry) (R : Ring) (x : aarray G R),
  Forall (fun ix => isub G ix = None) (indices G R x) -> a_reshape G R x (a_shape G R x) = Some x.
Proof. exact reshape_identity_no_fused. Qed.

(* known finding F12 on the array level: a well-formed array with a fused (2,1)
   axis followed by a size-one axis; reshape(x.shape) keeps the shape and the
   entries but moves the sub-index structure to the other axis *)
Theorem C07_reshape_identity_fused_refuted :
  wf_array Z2 ZRing f12 = true /\ a_shape Z2 ZRing f12 = [2; 1]%Z /\
  a_subsizes Z2 ZRing f12 = [Some [2; 1]%Z; None] /\
  reshape_plan Z2 ZRing f12 [2; 1]%Z = ReshapeArgs.Ok ([0], [[[1; 2]]], []) /\
  (exists y, a_reshape Z2 ZRing f12 (a_shape Z2 ZRing f12) = Some y /\ a_shape Z2 ZRing y = [2; 1]%Z /\
             a_subsizes Z2 ZRing y = [None; Some [1; 1]%Z] /\
             stored_entries Z2 ZRing y = stored_entries Z2 ZRing f12) /\
  a_reshape Z2 ZRing f12 (a_shape Z2 ZRing f12) <> Some f12.
Proof. exact reshape_identity_fused_refuted. Qed.

(* ---- D: simulation by the tree executor, rank and sizes ---- *)
Theorem C07_exec_plan_simulation_partial : forall (G : Symmetry) (R : Ring),
  GroupLaws G -> OrderLaws G -> ZeroTest R -> RingLaws R ->
  forall (p : ReshapeArgs.plan) (x y : aarray G R) (ts : list ReshapeArgs.tree),
  wf_array G R x = true -> plan_single_groups p = true -> a_exec_plan G R p x = Some y ->
  sim G ts (indices G R x) ->
  exists ts', ReshapeArgs.exec_plan p ts = Some ts' /\ sim G ts' (indices G R y).
Proof. exact exec_plan_sim. Qed.

Theorem C07_trees_of_indices : forall (G : Symmetry) (ixs : list (index G)), sim G (map (skel G) ixs) ixs.
Proof. exact sim_skel. Qed.

Theorem C07_index_size_le_tree : forall G : Symmetry, GroupLaws G -> OrderLaws G ->
  forall ix : index G, wf_index G ix = true ->
  (Z.of_nat (size_total G ix) <= ReshapeArgs.tsize (skel G ix))%Z.
Proof. exact size_total_le_tsize. Qed.

Theorem C07_reshape_simulation_partial : forall (G : Symmetry) (R : Ring),
  GroupLaws G -> OrderLaws G -> ZeroTest R -> RingLaws R ->
  forall (x y : aarray G R) (shp : list Z),
  wf_array G R x = true -> a_reshape G R x shp = Some y ->
  (forall p, reshape_plan G R x shp = ReshapeArgs.Ok p -> plan_single_groups p = true) ->
  exists p ts', reshape_plan G R x shp = ReshapeArgs.Ok p /\
    ReshapeArgs.exec_plan p (map (skel G) (indices G R x)) = Some ts' /\
    sim G ts' (indices G R y) /\ ndim G R y = length ts' /\
    ReshapePlanProofs.size_prod ts' = ReshapePlanProofs.size_prod (map (skel G) (indices G R x)).
Proof. exact reshape_simulation_partial. Qed.

Theorem C07_reshape_rank_and_sizes_partial : forall (G : Symmetry) (R : Ring),
  GroupLaws G -> OrderLaws G -> ZeroTest R -> RingLaws R ->
  forall (x y : aarray G R) (shp : list Z),
  wf_array G R x = true -> a_reshape G R x shp = Some y ->
  (forall p, reshape_plan G R x shp = ReshapeArgs.Ok p -> plan_single_groups p = true) ->
  exists p ts', reshape_plan G R x shp = ReshapeArgs.Ok p /\
    ReshapeArgs.exec_plan p (map (skel G) (indices G R x)) = Some ts' /\
    ndim G R y = length ts' /\
    (forall k, k < ndim G R y ->
       (Z.of_nat (size_total G (nth k (indices G R y) (dflt_index G))) <= nth k (ReshapeArgs.shape_of ts') 0)%Z) /\
    (ReshapeArgs.shape_of ts' = shp ->
       ndim G R y = length shp /\
       forall k, k < length shp ->
         (Z.of_nat (size_total G (nth k (indices G R y) (dflt_index G))) <= nth k shp 0)%Z).
Proof. exact reshape_rank_and_sizes_partial. Qed.

(* the full statement (rank = length shp, every axis <= requested) is FALSE on the
   pinned code — known finding F12b, reproduced on the array model: a well-formed
   array of shape (2,2) whose first axis is a block-sparse fusion with sub-sizes
   (2,2); reshape((2,2)) unfuses it and fuses the last two axes: shape (2,4) *)
Definition C07_reshape_rank_and_sizes_full : Prop := reshape_rank_and_sizes_full.

Theorem C07_reshape_larger_axis_witness :
  wf_array Z2 ZRing f12b = true /\ a_shape Z2 ZRing f12b = [2; 2]%Z /\
  a_subsizes Z2 ZRing f12b = [Some [2; 2]%Z; None] /\
  reshape_plan Z2 ZRing f12b [2; 2]%Z = ReshapeArgs.Ok ([0], [[[1; 2]]], []) /\
  exists y, a_reshape Z2 ZRing f12b [2; 2]%Z = Some y /\ a_shape Z2 ZRing y = [2; 4]%Z /\
            stored_entries Z2 ZRing y = stored_entries Z2 ZRing f12b.
Proof. exact f12b_facts. Qed.

Theorem C07_reshape_rank_and_sizes_full_refuted : ~ C07_reshape_rank_and_sizes_full.
Proof. exact reshape_rank_and_sizes_full_refuted. Qed.

Print Assumptions C07_ZRing_zero_test.
Print Assumptions C07_GRing_zero_test.
Print Assumptions C07_norm_of_entries.
Print Assumptions C07_unfuse_content.
Print Assumptions C07_fuse_content.
Print Assumptions C07_expand_dims_content.
Print Assumptions C07_exec_plan_content_partial.
Print Assumptions C07_reshape_content_partial.
Print Assumptions C07_reshape_identity_no_match.
Print Assumptions C07_reshape_identity_no_fused.
Print Assumptions C07_reshape_identity_fused_refuted.
Print Assumptions C07_exec_plan_simulation_partial.
Print Assumptions C07_trees_of_indices.
Print Assumptions C07_index_size_le_tree.
Print Assumptions C07_reshape_simulation_partial.
Print Assumptions C07_reshape_rank_and_sizes_partial.
Print Assumptions C07_reshape_larger_axis_witness.
Print Assumptions C07_reshape_rank_and_sizes_full_refuted.
