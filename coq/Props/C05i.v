(* Props/C05i.v — continuation of Props/C05.v (audited together with it):
   the GENERATED `calc_fuse_block_info` equals the hand model.  Statements only; proofs in
   Proofs/FuseGenProofs.v.

   tr/gen_fuse.py -> Gen/FuseGen.v: the ALGORITHM of symmray/abelian_core.py that computes, for a
   block-sparse array and a list of axis groups, the tables of the fused array —
   `calc_fuse_block_info` in full: per stored sector the new fused sector (signed combination
   `sign(c, group_dual != ix.dual)` of the charges of every multi-axis group, in the order of
   `perm`), the sub-sector of every group, the fused block shape; per group the dict of
   sub-sectors, its SORTED traversal into the fused charge table and into `extents` (ordered dict
   of ordered dicts, whose order fixes the slices `accum_for_split` hands out), the new index list
   with the sub-index information, and the block map — is TRANSLATED from the current source on
   every run (statement by statement: the nested loops, the in-place updates of lists of lists /
   lists of dicts, the memoising try/except, the variables that are None on one path) and proved
   EQUAL to the hand-written definitions of Model/Array.v that Props/C05.v, C05b.v, C05c.v, C05h.v
   (and C06) speak about: `fused_indices`, `fused_sector`, `fused_block_shape`, `group_subsector`.

   Equality is LEIBNIZ equality of the whole result, orders included: the nine results as a tuple;
   the index list with every table (`chargemap` sorted by mk_index as BlockIndex.__init__ does,
   `extents` in the dict order the code produces); the block map as the insertion-ordered dict
   obtained by storing the model's entry for every stored sector in order (for pairwise distinct
   sectors — any Python dict, `wf_array` — that is the list of the entries in sector order:
   C05i_gen_blockmap_is_model_nodup).  No up-to relation is used anywhere.

   Hypotheses (nothing else): `ceqb G` decides equality of charges (part of GroupLaws; needed for
   the dicts keyed by charges / sectors and for the memo table to be unobservable), and
   `groups_ok (ndim x) groups` (Proofs/HelpersProofs.v: non-empty groups of in-range, pairwise
   distinct axes — the groups `fuse` hands to `_fuse_core`; single-axis groups, groups in any
   order, axes of a group in any order, kept axes before / after all included).  The array itself
   is arbitrary: no well-formedness of its tables or sectors is needed (sectors shorter than the
   rank read the default charge on both sides).  Axes are Python ints (Z) on the generated side
   and nat in the model: `zg groups` = the groups as lists of Z.

   The seven remaining results are the generated projections of `calc_fuse_group_info`
   (Gen/Helpers.v), to which Props/C05g.v applies; they are part of C05i_gen_info_is_model.

   Then ONE main C05 theorem is restated for the generated function: the table-partition theorem
   C05_fused_extents_partition (Props/C05.v), now about the index that the GENERATED function puts
   at the position of a multi-axis group: the sub-sector sizes of every fused charge sum to the
   fused size, sub-sectors strictly sorted and duplicate-free, each one the sub-sector of a stored
   sector with size = product of the sub-index sizes and signed combination = the fused charge.

   The same generator also translates `_fuse_blocks_via_insert` (the slice table built with
   `accum_for_split` over the extents, the selector of every stored sector — which slice of which
   fused block its transposed + reshaped block goes to —, creation of the zero block on first use
   and the in-place insertion; dense-block statements are the abstract operations ttranspose /
   treshape / tzeros / tassign of Base/Tensor.v).  C05i_gen_insert_is_model: applied to the results
   of the GENERATED calc_fuse_block_info exactly as `_fuse_core` applies it, it returns the block
   dict of the hand model `fuse_core` — Leibniz equality of the association list: insertion order
   and every tensor.  C05i_gen_fuse_core_is_model: hence the array `_fuse_core` builds (new index
   list, charge, blocks) IS `fuse_core x groups`, the object of C05_fuse_layout_groups,
   C05_unfuse_fuse_groups, C05_concat_eq_insert, C06.  Hypotheses there: GroupLaws G, OrderLaws G
   (the sub-index tables are sorted dicts), `wf_array x` (stored sectors use charges of the index
   tables, so that every sub-sector is found in the slice table) and groups_ok.

   Proofs: Proofs/FuseGenProofs.v, Proofs/FuseInsertGenProofs.v.  Hand-modelled as before:
   `_fuse_blocks_via_concat` (Model/FuseConcat.v, C05c); `unfuse` / `unfuse_all` are translated too
   (Gen/UnfuseGen.v, Props/C05j.v). *)
From SV Require Import Base.Prelude Base.Sym Base.Tensor Model.Sectors Model.Array Model.Wf
  Proofs.OrderProofs Proofs.FuseProofs Proofs.HelpersProofs.
From SV Require Base.PyList Gen.Helpers Gen.FuseGen.
From SV Require Import Proofs.FuseGenProofs Proofs.FuseInsertGenProofs.
From Coq Require Import Permutation Sorting.
Local Open Scope nat_scope.

(* the whole result *)
Theorem C05i_gen_info_is_model : forall (G : Symmetry) (R : Ring), eqb_spec_on (ceqb G) ->
  forall (x : aarray G R) (groups : list (list nat)), groups_ok (ndim G R x) groups ->
  let ixs := indices G R x in
  let n := length ixs in
  FuseGen.gen_calc_fuse_block_info G R x (zg groups) =
  (Z.of_nat (length groups),
   zl (map fst (filter (fun p => is_singlet (snd p)) (enumerate groups))),
   zl (fuse_perm n groups), Z.of_nat (fuse_position groups),
   zl (axes_before n groups), zl (axes_after n groups),
   Helpers.cfgi_new_axes (zg groups) (duals G R x),
   fused_indices G ixs (sectors G R x) groups,
   fold_left (fun bm s => dset (list_eqb (ceqb G)) s
                            (fused_block_shape G ixs groups s, fused_sector G ixs groups s,
                             map (group_subsector G s) groups) bm) (sectors G R x) []).
Proof. exact gen_info_eq_model. Qed.

(* the new index list: charge tables, directions, sub-index lists, extents *)
Theorem C05i_gen_new_indices_is_model : forall (G : Symmetry) (R : Ring), eqb_spec_on (ceqb G) ->
  forall (x : aarray G R) (groups : list (list nat)), groups_ok (ndim G R x) groups ->
  FuseGen.cfbi_new_indices G R x (zg groups) = fused_indices G (indices G R x) (sectors G R x) groups.
Proof. exact gen_cfbi_new_indices. Qed.

(* the block map: per stored sector (fused block shape, fused sector, sub-sector of every group) *)
Theorem C05i_gen_blockmap_is_model : forall (G : Symmetry) (R : Ring), eqb_spec_on (ceqb G) ->
  forall (x : aarray G R) (groups : list (list nat)), groups_ok (ndim G R x) groups ->
  FuseGen.cfbi_blockmap G R x (zg groups) =
  fold_left (fun bm s => dset (list_eqb (ceqb G)) s
                           (fused_block_shape G (indices G R x) groups s, fused_sector G (indices G R x) groups s,
                            map (group_subsector G s) groups) bm) (sectors G R x) [].
Proof. exact gen_cfbi_blockmap. Qed.

Theorem C05i_gen_blockmap_is_model_nodup : forall (G : Symmetry) (R : Ring), eqb_spec_on (ceqb G) ->
  forall (x : aarray G R) (groups : list (list nat)), groups_ok (ndim G R x) groups -> NoDup (sectors G R x) ->
  FuseGen.cfbi_blockmap G R x (zg groups) =
  map (fun s => (s, (fused_block_shape G (indices G R x) groups s, fused_sector G (indices G R x) groups s,
                     map (group_subsector G s) groups))) (sectors G R x).
Proof. exact gen_cfbi_blockmap_nodup. Qed.

(* the index at the position of group number k is the model's fused index of that group *)
Theorem C05i_gen_group_index_is_model : forall (G : Symmetry) (R : Ring), eqb_spec_on (ceqb G) ->
  forall (x : aarray G R) (groups : list (list nat)) (k : nat), groups_ok (ndim G R x) groups -> k < length groups ->
  nth (fuse_position groups + k) (FuseGen.cfbi_new_indices G R x (zg groups)) (dflt_index G) =
  fused_index G (indices G R x) (sectors G R x) (nth k groups []).
Proof. exact gen_cfbi_group_index. Qed.

(* C05_fused_extents_partition for the GENERATED tables *)
Theorem C05i_gen_fused_extents_partition : forall (G : Symmetry) (R : Ring), GroupLaws G -> OrderLaws G ->
  forall (x : aarray G R) (groups : list (list nat)) (k : nat),
  groups_ok (ndim G R x) groups -> k < length groups ->
  let ixs := indices G R x in
  let secs := sectors G R x in
  let g := nth k groups [] in
  let fi := nth (fuse_position groups + k) (FuseGen.cfbi_new_indices G R x (zg groups)) (dflt_index G) in
  tables_ok G ixs -> secs_in_tables G ixs secs g -> is_singlet g = false ->
  forall c d, In (c, d) (chargemap G fi) ->
    size_of G fi c = d /\
    exists subs ext e, isub G fi = Some (subs, ext) /\
      lookup (ceqb G) c ext = Some e /\
      nsum (map snd e) = d /\
      StronglySorted (ltP (list_ltb (cltb G) (ceqb G))) (map fst e) /\ NoDup (map fst e) /\
      Forall (fun p => exists s, In s secs /\ fst p = group_subsector G s g /\
                                 snd p = subsizes_product G ixs g s /\
                                 signed_combination G ixs g s = c) e.
Proof. exact gen_extents_partition. Qed.

(* the generated _fuse_blocks_via_insert on the generated tables = the blocks of the model *)
Theorem C05i_gen_insert_is_model : forall (G : Symmetry) (R : Ring), GroupLaws G -> OrderLaws G ->
  forall (x : aarray G R) (groups : list (list nat)),
  wf_array G R x = true -> groups_ok (ndim G R x) groups ->
  FuseGen.gen_fuse_blocks_via_insert G R (blocks G R x)
    (FuseGen.cfbi_num_groups G R x (zg groups)) (FuseGen.cfbi_group_singlets G R x (zg groups))
    (FuseGen.cfbi_perm G R x (zg groups)) (FuseGen.cfbi_position G R x (zg groups))
    (FuseGen.cfbi_new_indices G R x (zg groups)) (FuseGen.cfbi_blockmap G R x (zg groups)) =
  blocks G R (fuse_core G R x groups).
Proof. exact gen_insert_eq_model. Qed.

(* the array _fuse_core(mode="insert") builds from the two generated functions = fuse_core *)
Theorem C05i_gen_fuse_core_is_model : forall (G : Symmetry) (R : Ring), GroupLaws G -> OrderLaws G ->
  forall (x : aarray G R) (groups : list (list nat)),
  wf_array G R x = true -> groups_ok (ndim G R x) groups ->
  mkA G R (FuseGen.cfbi_new_indices G R x (zg groups)) (charge G R x)
    (FuseGen.gen_fuse_blocks_via_insert G R (blocks G R x)
       (FuseGen.cfbi_num_groups G R x (zg groups)) (FuseGen.cfbi_group_singlets G R x (zg groups))
       (FuseGen.cfbi_perm G R x (zg groups)) (FuseGen.cfbi_position G R x (zg groups))
       (FuseGen.cfbi_new_indices G R x (zg groups)) (FuseGen.cfbi_blockmap G R x (zg groups))) =
  fuse_core G R x groups.
Proof. exact gen_fuse_core_eq_model. Qed.

Print Assumptions C05i_gen_info_is_model.
Print Assumptions C05i_gen_new_indices_is_model.
Print Assumptions C05i_gen_blockmap_is_model.
Print Assumptions C05i_gen_blockmap_is_model_nodup.
Print Assumptions C05i_gen_group_index_is_model.
Print Assumptions C05i_gen_fused_extents_partition.
Print Assumptions C05i_gen_insert_is_model.
Print Assumptions C05i_gen_fuse_core_is_model.
