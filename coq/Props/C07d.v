(* Props/C07d.v — continuation of Props/C07.v, C07b.v, C07c.v (audited together with
   them): property C07 on the ARRAY level, the round trip for SEVERAL merged runs of
   adjacent axes in one reshape call, which C07c left open, and reshapes that insert
   size-one axes.  Statements only; proofs live in Proofs/ReshapeArrayProofs3.v.

   For every symmetry G with GroupLaws G and OrderLaws G, every ring, all ranks, all
   tables, all sparsity patterns:

   1. C07_reshape_roundtrip_merge_runs: the statement C07_reshape_roundtrip_merge_runs_full
      of Props/C07c.v is PROVED: for x without fused axes, every axis of size >= 2 and
      any cut `ls` of the axes into runs (1 = the axis stays), a_reshape x merged = Some y
      and a_reshape y (a_shape x) = Some x' with x' restoring x (indices and charge
      equal, every stored block bit for bit, every other stored block all-zero, equal
      value at every coordinate).  C07_reshape_roundtrip_merge_runs_plans adds the plans:
      forward ([], calls_go 0 [] ls, []) — adjacent merged runs share ONE fuse call,
      non-adjacent ones get successive calls whose positions refer to the array after
      the previous calls — and back (back_pos 0 ls, [], []): the fused axes are unfused
      from the FIRST to the last, at positions shifted by the axes already restored.
   2. C07_merge_runs_forward_plan / _backward_plan: these ARE the plans
      `calc_reshape_args` returns (forward: every size >= 2; backward: no condition on
      sizes, every merged axis carries the sizes of its run as sub-sizes).
   3. C07_roundtrip_calls / C07_reshape_roundtrip_of_forward_plan: the array level does
      not depend on sizes at all: the fuse calls `calls_go 0 [] ls` followed by the
      unfuse steps `back_pos 0 ls` restore ANY well-formed array without fused axes
      (size-one axes, charged or not, included), and the unfuse steps are the plan of
      the way back; so whenever the forward plan is ([], calls_go 0 [] ls, []) the
      round trip through a_reshape restores the array.
   4. How the order of unfuse steps is dealt with: `sem_ge z' z` (both well-formed, same
      indices and charge, same value at every coordinate, every stored sector of z
      stored in z') is equivalent to `restores` (C07_restores_of_sem_ge /
      C07_sem_ge_of_restores); a_unfuse is monotone for it (C07_unfuse_mono); unfuse
      steps on two different fused axes commute up to it (C07_unfuse_commute); hence
      unfusing any increasing list of fused axes first to last gives sem_ge what
      unfusing them last to first gives (C07_unfuse_fifo).
   5. Reshapes that only INSERT size-one axes: C07_insert_ones_forward_plan (axes of
      size <> 1: the plan is expand_dims steps only).  The round trip insert-then-back
      does NOT restore the array exactly and is not claimed by the property (its round
      trip is merge/drop then back): the way back removes a size-one axis by FUSING it
      into a neighbour, so the axis comes back carrying sub-index information and a
      charge table rebuilt from the stored sectors — charges no block uses are lost,
      shape (3,3) comes back as (1,3); the blocks are the same.
      C07_reshape_roundtrip_insert_ones_full is the statement,
      C07_reshape_roundtrip_insert_ones_refuted its refutation, C07_insert_ones_witness
      the computed facts (same behaviour observed on the Python code).
   6. Reshapes that only DROP size-one axes (the round trip the property does claim):
      C07_drop_ones_forward_plan — `a` leading size-one axes and z size-one axes after
      every kept axis (d, z) are dropped; the squeeze phases of calc_reshape_args group
      the leading ones into the first kept axis and every other run into the axis on
      its left, and the plan is again ([], calls_go 0 [] ls, []); kept axes may have
      size one themselves as long as the greedy matching cannot confuse them with
      dropped ones (chain_ok).  C07_reshape_roundtrip_drop_ones: hence for x without
      fused axes (size-one axes charged or not), a_reshape x kept = Some y and
      a_reshape y (a_shape x) = Some x' with x' restoring x.
   7. C07_reshape_roundtrip_merge_drop_full: the composite statement for ANY target of
      `ReshapeArgs.targets_of` (merging and dropping mixed) except the scalar shape
      (F11): stated, NOT proved in general (1 and 6 are its two pure cases; for mixed
      targets only the forward plan is missing, see 3); decided on all 54 targets of a
      concrete array with charged size-one axes (C07_merge_drop_witness). *)
From SV Require Import Base.Prelude Base.Sym Base.Tensor Model.Sectors Model.Array Model.Wf Model.Arith
  Model.SymInst Proofs.OrderProofs Proofs.StructProofs Proofs.FuseProofs Model.ReshapeArray
  Proofs.ReshapeArrayProofs Proofs.ReshapeArrayProofs2 Proofs.ReshapeArrayProofs3 Props.C07c.
From SV Require Model.ReshapeArgs Proofs.ReshapeArgsProofs.
From Coq Require Import Permutation Sorting.
Local Open Scope nat_scope.

(* ---- 1: several merged runs, and back ---- *)
Theorem C07_reshape_roundtrip_merge_runs : C07_reshape_roundtrip_merge_runs_full.
Proof. exact reshape_roundtrip_merge_runs_full_proved. Qed.

Theorem C07_reshape_roundtrip_merge_runs_plans : forall (G : Symmetry) (R : Ring), GroupLaws G -> OrderLaws G ->
  forall (x : aarray G R) (ls : list nat),
  wf_array G R x = true -> Forall (fun ix => isub G ix = None) (indices G R x) ->
  Forall (fun k => 1 <= k) ls -> nsum ls = ndim G R x ->
  Forall (fun ix => 2 <= size_total G ix) (indices G R x) ->
  exists y x',
    a_reshape G R x (merged_runs (a_shape G R x) ls) = Some y /\
    a_reshape G R y (a_shape G R x) = Some x' /\
    reshape_plan G R x (merged_runs (a_shape G R x) ls) = ReshapeArgs.Ok ([], calls_go 0 [] ls, []) /\
    reshape_plan G R y (a_shape G R x) = ReshapeArgs.Ok (back_pos 0 ls, [], []) /\
    wf_array G R y = true /\ wf_array G R x' = true /\
    (indices G R x' = indices G R x /\ charge G R x' = charge G R x /\
     (forall s b, In (s, b) (blocks G R x) -> lookup (list_eqb (ceqb G)) s (blocks G R x') = Some b) /\
     (forall k t, In (k, t) (blocks G R x') -> In (k, t) (blocks G R x) \/ Forall (fun v => v = r0 R) (tdata t)) /\
     (forall cs, coords_ok G (indices G R x) cs = true -> sem G R x' cs = sem G R x cs)).
Proof. exact reshape_roundtrip_merge_runs_plans. Qed.

(* the hypothesis "no fused axes" cannot be dropped (family F12b): shape (2,2), first axis fused with
   sub-sizes (2,2), no merge at all: the result has shape (2,4) and the way back is rejected *)
Theorem C07_merge_runs_needs_no_fused_axes :
  wf_array Z2 ZRing f12b = true /\ Forall (fun ix => 2 <= size_total Z2 ix) (indices Z2 ZRing f12b) /\
  Forall (fun k => 1 <= k) [1; 1] /\ nsum [1; 1] = ndim Z2 ZRing f12b /\
  merged_runs (a_shape Z2 ZRing f12b) [1; 1] = [2; 2]%Z /\ a_subsizes Z2 ZRing f12b = [Some [2; 2]%Z; None] /\
  option_map (a_shape Z2 ZRing) (a_reshape Z2 ZRing f12b [2; 2]%Z) = Some [2; 4]%Z /\
  ~ (exists y x', a_reshape Z2 ZRing f12b (merged_runs (a_shape Z2 ZRing f12b) [1; 1]) = Some y /\
                  a_reshape Z2 ZRing y (a_shape Z2 ZRing f12b) = Some x' /\ restores Z2 ZRing x' f12b).
Proof. exact merge_runs_needs_no_fused_axes. Qed.


(* ---- 2: the plans ---- *)
Theorem C07_merge_runs_forward_plan : forall cks : list (list Z),
  Forall (fun c => c <> [] /\ Forall (fun d => (2 <= d)%Z) c) cks ->
  ReshapeArgs.calc_reshape_args (concat cks) (map ReshapeArgs.zprod cks) (map (fun _ => None) (concat cks))
  = ReshapeArgs.Ok ([], calls_go 0 [] (map (@length Z) cks), []).
Proof. exact merge_runs_forward_plan. Qed.

Theorem C07_merge_runs_backward_plan : forall items : list (list Z * Z),
  Forall (fun it => fst it <> [] /\ (length (fst it) = 1 -> fst it = [snd it])) items ->
  ReshapeArgs.calc_reshape_args (map snd items) (concat (map fst items))
    (map (fun it => if Nat.eqb (length (fst it)) 1 then None else Some (fst it)) items)
  = ReshapeArgs.Ok (back_pos 0 (map (fun it => length (fst it)) items), [], []).
Proof. exact merge_runs_backward_plan. Qed.

Theorem C07_merge_runs_plans_witness :
  calls_go 0 [] [2; 1; 3; 2] = [[[0; 1]]; [[2; 3; 4]; [5; 6]]] /\ back_pos 0 [2; 1; 3; 2] = [0; 3; 6] /\
  ReshapeArgs.calc_reshape_args [2; 3; 4; 5; 2; 2; 3; 3]%Z [6; 4; 20; 9]%Z (map (fun _ => None) [2; 3; 4; 5; 2; 2; 3; 3]%Z)
    = ReshapeArgs.Ok ([], [[[0; 1]]; [[2; 3; 4]; [5; 6]]], []) /\
  ReshapeArgs.calc_reshape_args [6; 4; 20; 9]%Z [2; 3; 4; 5; 2; 2; 3; 3]%Z
    [Some [2; 3]%Z; None; Some [5; 2; 2]%Z; Some [3; 3]%Z] = ReshapeArgs.Ok ([0; 3; 6], [], []).
Proof. exact merge_runs_plans_example. Qed.

(* ---- 3: the array level does not depend on sizes ---- *)
Theorem C07_roundtrip_calls : forall (G : Symmetry) (R : Ring), GroupLaws G -> OrderLaws G ->
  forall (x : aarray G R) (ls : list nat),
  wf_array G R x = true -> Forall (fun ix => isub G ix = None) (indices G R x) ->
  Forall (fun k => 1 <= k) ls -> nsum ls = ndim G R x ->
  exists y x',
    fuse_seq G R (calls_go 0 [] ls) x = Some y /\ unfuse_seq G R (back_pos 0 ls) y = Some x' /\
    reshape_plan G R y (a_shape G R x) = ReshapeArgs.Ok (back_pos 0 ls, [], []) /\
    wf_array G R y = true /\ wf_array G R x' = true /\ restores G R x' x.
Proof. exact roundtrip_calls. Qed.

Theorem C07_reshape_roundtrip_of_forward_plan : forall (G : Symmetry) (R : Ring), GroupLaws G -> OrderLaws G ->
  forall (x : aarray G R) (ls : list nat) (shp : list Z),
  wf_array G R x = true -> Forall (fun ix => isub G ix = None) (indices G R x) ->
  Forall (fun k => 1 <= k) ls -> nsum ls = ndim G R x ->
  reshape_plan G R x shp = ReshapeArgs.Ok ([], calls_go 0 [] ls, []) ->
  exists y x',
    a_reshape G R x shp = Some y /\ a_reshape G R y (a_shape G R x) = Some x' /\
    reshape_plan G R y (a_shape G R x) = ReshapeArgs.Ok (back_pos 0 ls, [], []) /\
    wf_array G R y = true /\ wf_array G R x' = true /\ restores G R x' x.
Proof. exact reshape_roundtrip_of_forward_plan. Qed.

Theorem C07_merge_runs_witness :
  calls_go 0 [] [2; 1; 2] = [[[0; 1]]; [[2; 3]]] /\ back_pos 0 [2; 1; 2] = [0; 3] /\
  exists y x', a_reshape Z2 ZRing ex5 (merged_runs (a_shape Z2 ZRing ex5) [2; 1; 2]) = Some y /\
               a_reshape Z2 ZRing y (a_shape Z2 ZRing ex5) = Some x' /\ restores Z2 ZRing x' ex5.
Proof. exact merge_runs_applies. Qed.

Theorem C07_merge_runs_adjacent_proved_witness :
  calls_go 0 [] [2; 2] = [[[0; 1]; [2; 3]]] /\ back_pos 0 [2; 2] = [0; 2] /\
  exists y x', a_reshape Z2 ZRing ex4 (merged_runs (a_shape Z2 ZRing ex4) [2; 2]) = Some y /\
               a_reshape Z2 ZRing y (a_shape Z2 ZRing ex4) = Some x' /\ restores Z2 ZRing x' ex4.
Proof. exact merge_runs_applies_adjacent. Qed.

(* ---- 4: the order of unfuse steps ---- *)
Theorem C07_restores_of_sem_ge : forall (G : Symmetry) (R : Ring), GroupLaws G ->
  forall x' x : aarray G R, sem_ge G R x' x -> restores G R x' x.
Proof. exact restores_of_sem_ge. Qed.

Theorem C07_sem_ge_of_restores : forall (G : Symmetry) (R : Ring), GroupLaws G ->
  forall x' x : aarray G R, wf_array G R x' = true -> wf_array G R x = true -> restores G R x' x -> sem_ge G R x' x.
Proof. exact sem_ge_of_restores. Qed.

Theorem C07_unfuse_mono : forall (G : Symmetry) (R : Ring), GroupLaws G -> OrderLaws G ->
  forall (z' z : aarray G R) (ax : nat) (w : aarray G R),
  sem_ge G R z' z -> a_unfuse G R z ax = Some w ->
  exists w', a_unfuse G R z' ax = Some w' /\ sem_ge G R w' w.
Proof. exact unfuse_mono. Qed.

Theorem C07_unfuse_commute : forall (G : Symmetry) (R : Ring), GroupLaws G -> OrderLaws G ->
  forall (Y : aarray G R) I1 A I2 B I3 sa ea sb eb,
  wf_array G R Y = true -> indices G R Y = I1 ++ A :: I2 ++ B :: I3 ->
  isub G A = Some (sa, ea) -> isub G B = Some (sb, eb) ->
  exists Ya Yab Yb Yba,
    a_unfuse G R Y (length I1) = Some Ya /\ a_unfuse G R Ya (length I1 + length sa + length I2) = Some Yab /\
    a_unfuse G R Y (length I1 + 1 + length I2) = Some Yb /\ a_unfuse G R Yb (length I1) = Some Yba /\
    sem_ge G R Yab Yba.
Proof. exact unfuse_commute. Qed.

Theorem C07_unfuse_fifo : forall (G : Symmetry) (R : Ring), GroupLaws G -> OrderLaws G ->
  forall (l : list (nat * nat)) (Y ZL : aarray G R),
  wf_array G R Y = true -> Forall (FusedAt G R Y) l -> StronglySorted (fun p q => fst p < fst q) l ->
  unfuse_seq G R (rev (map fst l)) Y = Some ZL ->
  exists ZF, unfuse_seq G R (fifo 0 l) Y = Some ZF /\ sem_ge G R ZF ZL.
Proof. exact unfuse_fifo. Qed.

(* ---- 5: inserting size-one axes ---- *)
Theorem C07_insert_ones_forward_plan : forall (sh : list Z) (ins : list nat) (t : nat),
  length ins = length sh -> Forall (fun d => d <> 1%Z) sh ->
  ReshapeArgs.calc_reshape_args sh (ins_shape sh ins t) (map (fun _ => None) sh)
  = ReshapeArgs.Ok ([], [], rev (ins_pos 0 ins ++ repeat (length sh) t)).
Proof. exact insert_ones_forward_plan. Qed.

Definition C07_reshape_roundtrip_insert_ones_full : Prop := reshape_roundtrip_insert_ones_full.

Theorem C07_reshape_roundtrip_insert_ones_refuted : ~ C07_reshape_roundtrip_insert_ones_full.
Proof. exact reshape_roundtrip_insert_ones_refuted. Qed.

(* (3,3) -> (3,1,3) -> back: the plan of the way back fuses axes 0 and 1; the shape comes
   back as (1,3), the first axis carrying the sub-sizes (3,1); the blocks are the same *)
Theorem C07_insert_ones_witness :
  wf_array Z2 ZRing exu = true /\ Forall (fun ix => isub Z2 ix = None) (indices Z2 ZRing exu) /\
  Forall (fun ix => size_total Z2 ix <> 1) (indices Z2 ZRing exu) /\
  ins_shape (a_shape Z2 ZRing exu) [0; 1] 0 = [3; 1; 3]%Z /\
  reshape_plan Z2 ZRing exu [3; 1; 3]%Z = ReshapeArgs.Ok ([], [], [1]) /\
  match a_reshape Z2 ZRing exu [3; 1; 3]%Z with
  | Some y => (a_shape Z2 ZRing y, reshape_plan Z2 ZRing y [3; 3]%Z, option_map (a_shape Z2 ZRing) (a_reshape Z2 ZRing y [3; 3]%Z),
               option_map (fun x' => blocks_eqb_strict Z2 ZRing (blocks Z2 ZRing x') (blocks Z2 ZRing exu)) (a_reshape Z2 ZRing y [3; 3]%Z),
               option_map (a_subsizes Z2 ZRing) (a_reshape Z2 ZRing y [3; 3]%Z))
  | None => ([], ReshapeArgs.ErrValue, None, None, None) end
  = ([3; 1; 3]%Z, ReshapeArgs.Ok ([], [[[0; 1]]], []), Some [1; 3]%Z, Some true, Some [Some [3; 1]%Z; None]).
Proof. exact insert_ones_example. Qed.


(* ---- 6: dropping size-one axes ---- *)
Theorem C07_drop_ones_forward_plan : forall (a : nat) (dz : Z * nat) (ds : list (Z * nat)),
  chain_ok (dz :: ds) -> (0 < a -> fst dz <> 1%Z) ->
  ReshapeArgs.calc_reshape_args (drop_shape a (dz :: ds)) (map fst (dz :: ds)) (map (fun _ => None) (drop_shape a (dz :: ds)))
  = ReshapeArgs.Ok ([], calls_go 0 [] (drop_lens a (dz :: ds)), []).
Proof. exact drop_ones_forward_plan. Qed.

Theorem C07_reshape_roundtrip_drop_ones : forall (G : Symmetry) (R : Ring), GroupLaws G -> OrderLaws G ->
  forall (x : aarray G R) (a : nat) (dz : Z * nat) (ds : list (Z * nat)),
  wf_array G R x = true -> Forall (fun ix => isub G ix = None) (indices G R x) ->
  a_shape G R x = drop_shape a (dz :: ds) -> chain_ok (dz :: ds) -> (0 < a -> fst dz <> 1%Z) ->
  exists y x',
    a_reshape G R x (map fst (dz :: ds)) = Some y /\ a_reshape G R y (a_shape G R x) = Some x' /\
    reshape_plan G R x (map fst (dz :: ds)) = ReshapeArgs.Ok ([], calls_go 0 [] (drop_lens a (dz :: ds)), []) /\
    reshape_plan G R y (a_shape G R x) = ReshapeArgs.Ok (back_pos 0 (drop_lens a (dz :: ds)), [], []) /\
    wf_array G R y = true /\ wf_array G R x' = true /\ restores G R x' x.
Proof. exact reshape_roundtrip_drop_ones. Qed.

(* shape (1,3,1,1,3) with charged size-one axes -> (3,3) -> back: one fuse call [0..3], unfuse axis 0, the
   array itself comes back *)
Theorem C07_drop_ones_witness :
  wf_array Z2 ZRing exd = true /\ Forall (fun ix => isub Z2 ix = None) (indices Z2 ZRing exd) /\
  a_shape Z2 ZRing exd = drop_shape 1 [(3%Z, 2); (3%Z, 0)] /\ chain_ok [(3%Z, 2); (3%Z, 0)] /\
  map fst [(3%Z, 2); (3%Z, 0)] = [3; 3]%Z /\
  drop_lens 1 [(3%Z, 2); (3%Z, 0)] = [4; 1] /\
  reshape_plan Z2 ZRing exd [3; 3]%Z = ReshapeArgs.Ok ([], [[[0; 1; 2; 3]]], []) /\
  rt_check exd [3; 3]%Z [3; 3]%Z ([0], [], []) 2 true = true.
Proof. exact drop_ones_example. Qed.

Theorem C07_drop_ones_applied :
  exists y x', a_reshape Z2 ZRing exd [3; 3]%Z = Some y /\ a_reshape Z2 ZRing y (a_shape Z2 ZRing exd) = Some x' /\
               restores Z2 ZRing x' exd.
Proof. exact drop_ones_applies. Qed.

(* ---- 7: merging and dropping mixed: the statement, NOT proved in general ---- *)
Definition C07_reshape_roundtrip_merge_drop_full : Prop := reshape_roundtrip_merge_drop_full.

Theorem C07_merge_drop_witness :
  length (ReshapeArgs.targets_of (a_shape Z2 ZRing exd)) = 54 /\
  forallb (rt_ok exd) (ReshapeArgs.targets_of (a_shape Z2 ZRing exd)) = true /\
  forallb (rt_ok ex5) (ReshapeArgs.targets_of (a_shape Z2 ZRing ex5)) = true.
Proof. exact merge_drop_example. Qed.

Print Assumptions C07_reshape_roundtrip_merge_runs.
Print Assumptions C07_reshape_roundtrip_merge_runs_plans.
Print Assumptions C07_merge_runs_forward_plan.
Print Assumptions C07_merge_runs_backward_plan.
Print Assumptions C07_merge_runs_plans_witness.
Print Assumptions C07_roundtrip_calls.
Print Assumptions C07_reshape_roundtrip_of_forward_plan.
Print Assumptions C07_merge_runs_witness.
Print Assumptions C07_merge_runs_adjacent_proved_witness.
Print Assumptions C07_restores_of_sem_ge.
Print Assumptions C07_sem_ge_of_restores.
Print Assumptions C07_unfuse_mono.
Print Assumptions C07_unfuse_commute.
Print Assumptions C07_unfuse_fifo.
Print Assumptions C07_insert_ones_forward_plan.
Print Assumptions C07_reshape_roundtrip_insert_ones_refuted.
Print Assumptions C07_insert_ones_witness.
Print Assumptions C07_drop_ones_forward_plan.
Print Assumptions C07_reshape_roundtrip_drop_ones.
Print Assumptions C07_drop_ones_witness.
Print Assumptions C07_drop_ones_applied.
Print Assumptions C07_merge_drop_witness.
Print Assumptions C07_merge_runs_needs_no_fused_axes.
