(* Props/C04c.v — property C04, continuation: route independence at the ARRAY /
   ELEMENT level with ANY contraction mode (auto / fused / blockwise) on the
   individual contractions, for the current-code model `Fused.f_tensordot2`.
   Statements only; proofs live in Proofs/ModesProofs.v.  They are corollaries
   of Props/C04b.v (the same theorems for the blockwise strategy) and of
   C03_all_modes_agree (Props/C03b.v): every mode returns the labels, charge,
   index tables of the blockwise result and the same value at every coordinate
   list — stored sector SETS may differ by all-zero blocks, which is why a
   transposed result needs C04_transpose_observational.

   Vocabulary as in Props/C04b.v (wf_fermi, V, pair_ok, naxes, distinct, CommLaws),
   plus free_ixs a b aa ab = the free legs of a followed by the free legs of b.

   PROVED for all modes: swap_operands, axis_listing, pre_transpose (first and
   second operand).  Associativity: PROVED (_partial) with the second-stage
   contractions in any mode, the first-stage contractions block by block, for
   intermediates that keep all charges of their legs; the full statement is the
   Definition C04_assoc_chain_all_modes_full (what is missing: see there).
   One pair after the other (tensordot, then the fermionic einsum trace):
   Definition C04_one_by_one_full, NOT proved; proved is its label part
   (C04_contraction_labels), the statement is checked by vm_compute on Z2
   instances for both directions of the traced pair and all modes
   (ModesProofs.ModesEx.one_by_one_values). *)
From SV Require Import Base.Prelude Base.Sym Base.Tensor Gen.OpOrder Model.Sectors Model.Array Model.Arith
  Model.Fermi Model.Fused Model.Graded Model.Oddpos Model.Wf Proofs.OrderProofs Proofs.OddposProofs Proofs.Tdot
  Proofs.WfProofs Proofs.FermiProofs Proofs.RouteProofs Proofs.ModesProofs.
From Coq Require Import Permutation.
Local Open Scope nat_scope.

(* ---- 0. observationally equal arrays stay so under the fermionic transpose ---- *)
(* Two valid arrays over the same index tables with the same value at every
   coordinate list (they may store different all-zero blocks) have the same
   value at every coordinate list after any fermionic transpose. *)
Theorem C04_transpose_observational :
  forall (G : Symmetry), GroupLaws G -> forall (R : Ring), NegLaws R ->
  forall (x' x : farray G R) (p : list nat),
  wf_array G R (fbase G R x') = true -> wf_array G R (fbase G R x) = true ->
  indices G R (fbase G R x') = indices G R (fbase G R x) ->
  (forall cs, V G R x' cs = V G R x cs) ->
  Permutation p (seq 0 (ndim G R (fbase G R x))) ->
  forall cs, V G R (f_transpose G R x' p true) cs = V G R (f_transpose G R x p true) cs.
Proof. exact V_transpose_obs. Qed.

(* ---- 1. which operand is passed first ---- *)
Theorem C04_swap_operands_all_modes :
  forall (G : Symmetry), GroupLaws G -> OrderLaws G ->
  forall (R : Ring), NegLaws R -> SumLaws R -> CommLaws R ->
  forall (a b : farray G R) (aa ab : list nat) (m1 m2 : tmode),
  wf_fermi G R a = true -> wf_fermi G R b = true -> pair_ok G R a b aa ab ->
  distinct (foddpos G R a ++ foddpos G R b) ->
  exists y1 y2,
    f_tensordot2 G R a b (naxes aa ab) m1 = Some y1
    /\ f_tensordot2 G R b a (naxes ab aa) m2 = Some y2
    /\ let nl := ndim G R (fbase G R a) - length aa in
       let nr := ndim G R (fbase G R b) - length ab in
       let t := f_transpose G R y1 (seq nl nr ++ seq 0 nl) true in
       foddpos G R y2 = foddpos G R t
       /\ forall cl cr,
            coords_ok G (without_axes (indices G R (fbase G R a)) aa) cl = true ->
            coords_ok G (without_axes (indices G R (fbase G R b)) ab) cr = true ->
            V G R y2 (cr ++ cl) = V G R t (cr ++ cl).
Proof. exact swap_operands_modes. Qed.

(* ---- 2. the order in which the contracted axis pairs are listed ---- *)
Theorem C04_axis_listing_all_modes :
  forall (G : Symmetry), GroupLaws G -> OrderLaws G ->
  forall (R : Ring), NegLaws R -> SumLaws R ->
  forall (a b : farray G R) (aa ab p : list nat) (m1 m2 : tmode),
  wf_fermi G R a = true -> wf_fermi G R b = true -> pair_ok G R a b aa ab ->
  distinct (foddpos G R a ++ foddpos G R b) -> Permutation p (seq 0 (length aa)) ->
  exists y y',
    f_tensordot2 G R a b (naxes aa ab) m1 = Some y
    /\ f_tensordot2 G R a b (naxes (permuted 0 aa p) (permuted 0 ab p)) m2 = Some y'
    /\ foddpos G R y' = foddpos G R y
    /\ forall cl cr,
         coords_ok G (without_axes (indices G R (fbase G R a)) aa) cl = true ->
         coords_ok G (without_axes (indices G R (fbase G R b)) ab) cr = true ->
         V G R y' (cl ++ cr) = V G R y (cl ++ cr).
Proof. exact axis_listing_modes. Qed.

(* ---- 3. a fermionic transpose applied to an operand beforehand ---- *)
Theorem C04_pre_transpose_first_all_modes :
  forall (G : Symmetry), GroupLaws G -> OrderLaws G ->
  forall (R : Ring), NegLaws R -> SumLaws R ->
  forall (a b : farray G R) (aa ab p : list nat) (m1 m2 : tmode),
  wf_fermi G R a = true -> wf_fermi G R b = true -> pair_ok G R a b aa ab ->
  Permutation p (seq 0 (ndim G R (fbase G R a))) ->
  distinct (foddpos G R a ++ foddpos G R b) ->
  let na := ndim G R (fbase G R a) in
  let aa' := map (fun j => index_of j p) aa in
  let la := rest_axes na aa in
  let ql := map (fun j => index_of j la) (map (fun i => nth i p 0) (rest_axes na aa')) in
  exists y y',
    f_tensordot2 G R a b (naxes aa ab) m1 = Some y
    /\ f_tensordot2 G R (f_transpose G R a p true) b (naxes aa' ab) m2 = Some y'
    /\ let t := f_transpose G R y (ql ++ seq (length la) (ndim G R (fbase G R b) - length ab)) true in
       foddpos G R y' = foddpos G R t
       /\ forall cl cr,
            coords_ok G (without_axes (indices G R (fbase G R a)) aa) cl = true ->
            coords_ok G (without_axes (indices G R (fbase G R b)) ab) cr = true ->
            V G R y' (permuted (ident G, 0) cl ql ++ cr) = V G R t (permuted (ident G, 0) cl ql ++ cr).
Proof. exact pre_transpose_first_modes. Qed.

Theorem C04_pre_transpose_second_all_modes :
  forall (G : Symmetry), GroupLaws G -> OrderLaws G ->
  forall (R : Ring), NegLaws R -> SumLaws R ->
  forall (a b : farray G R) (aa ab p : list nat) (m1 m2 : tmode),
  wf_fermi G R a = true -> wf_fermi G R b = true -> pair_ok G R a b aa ab ->
  Permutation p (seq 0 (ndim G R (fbase G R b))) ->
  distinct (foddpos G R a ++ foddpos G R b) ->
  let nb := ndim G R (fbase G R b) in
  let ab' := map (fun j => index_of j p) ab in
  let rb := rest_axes nb ab in
  let qr := map (fun j => index_of j rb) (map (fun i => nth i p 0) (rest_axes nb ab')) in
  let nl := ndim G R (fbase G R a) - length aa in
  exists y y',
    f_tensordot2 G R a b (naxes aa ab) m1 = Some y
    /\ f_tensordot2 G R a (f_transpose G R b p true) (naxes aa ab') m2 = Some y'
    /\ let t := f_transpose G R y (seq 0 nl ++ map (fun i => nl + i) qr) true in
       foddpos G R y' = foddpos G R t
       /\ forall cl cr,
            coords_ok G (without_axes (indices G R (fbase G R a)) aa) cl = true ->
            coords_ok G (without_axes (indices G R (fbase G R b)) ab) cr = true ->
            V G R y' (cl ++ permuted (ident G, 0) cr qr) = V G R t (cl ++ permuted (ident G, 0) cr qr).
Proof. exact pre_transpose_second_modes. Qed.

(* ---- 4. associativity ---- *)
(* FULL statement (NOT proved): each of the four contractions in its own mode. *)
Definition C04_assoc_chain_all_modes_full : Prop :=
  forall (G : Symmetry), GroupLaws G -> OrderLaws G ->
  forall (R : Ring), NegLaws R -> SumLaws R -> CommLaws R ->
  forall (m1 m12 m2 m21 : tmode) (a b c : farray G R) (aa ab bb cb : list nat),
  wf_fermi G R a = true -> wf_fermi G R b = true -> wf_fermi G R c = true ->
  pair_ok G R a b aa ab -> pair_ok G R b c bb cb ->
  (forall j, In j ab -> ~ In j bb) ->
  distinct (foddpos G R a ++ foddpos G R b ++ foddpos G R c) ->
  let nl := length (rest_axes (ndim G R (fbase G R a)) aa) in
  let bb1 := map (fun j => nl + index_of j (rest_axes (ndim G R (fbase G R b)) ab)) bb in
  let ab2 := map (fun j => index_of j (rest_axes (ndim G R (fbase G R b)) bb)) ab in
  exists y1 y12 y2 y21,
    f_tensordot2 G R a b (naxes aa ab) m1 = Some y1
    /\ f_tensordot2 G R y1 c (naxes bb1 cb) m12 = Some y12
    /\ f_tensordot2 G R b c (naxes bb cb) m2 = Some y2
    /\ f_tensordot2 G R a y2 (naxes aa ab2) m21 = Some y21
    /\ foddpos G R y12 = foddpos G R y21
    /\ forall cl cm cr,
         coords_ok G (without_axes (indices G R (fbase G R a)) aa) cl = true ->
         coords_ok G (without_axes (indices G R (fbase G R b)) (ab ++ bb)) cm = true ->
         coords_ok G (without_axes (indices G R (fbase G R c)) cb) cr = true ->
         V G R y12 (cl ++ cm ++ cr) = V G R y21 (cl ++ cm ++ cr).

(* PROVED: first-stage contractions block by block, second-stage contractions in
   ANY mode, for intermediates that keep every charge of their legs (the index
   tables of a.b and b.c are the free legs of the operands, nothing dropped).
   Missing for the full statement: (i) an intermediate whose tables lost unused
   charges, contracted in fused mode against an operand with the full tables:
   C06 asks for equal tables on the contracted legs; needed is that tdot_fused2
   only depends on the tables after the alignment has pruned them; (ii) that an
   intermediate with additional all-zero blocks (fused first stage) contracts to
   the same values (congruence of the contraction under C04_transpose_observational's
   notion of equality). *)
Theorem C04_assoc_chain_second_stage_modes_partial :
  forall (G : Symmetry), GroupLaws G -> OrderLaws G ->
  forall (R : Ring), NegLaws R -> SumLaws R -> CommLaws R ->
  forall (a b c : farray G R) (aa ab bb cb : list nat) (m12 m21 : tmode),
  wf_fermi G R a = true -> wf_fermi G R b = true -> wf_fermi G R c = true ->
  pair_ok G R a b aa ab -> pair_ok G R b c bb cb ->
  (forall j, In j ab -> ~ In j bb) ->
  distinct (foddpos G R a ++ foddpos G R b ++ foddpos G R c) ->
  (forall y1, f_tensordot2 G R a b (naxes aa ab) MBlockwise = Some y1 ->
     indices G R (fbase G R y1) = free_ixs G R a b aa ab) ->
  (forall y2, f_tensordot2 G R b c (naxes bb cb) MBlockwise = Some y2 ->
     indices G R (fbase G R y2) = free_ixs G R b c bb cb) ->
  let nl := length (rest_axes (ndim G R (fbase G R a)) aa) in
  let bb1 := map (fun j => nl + index_of j (rest_axes (ndim G R (fbase G R b)) ab)) bb in
  let ab2 := map (fun j => index_of j (rest_axes (ndim G R (fbase G R b)) bb)) ab in
  exists y1 y12 y2 y21,
    f_tensordot2 G R a b (naxes aa ab) MBlockwise = Some y1
    /\ f_tensordot2 G R y1 c (naxes bb1 cb) m12 = Some y12
    /\ f_tensordot2 G R b c (naxes bb cb) MBlockwise = Some y2
    /\ f_tensordot2 G R a y2 (naxes aa ab2) m21 = Some y21
    /\ foddpos G R y12 = foddpos G R y21
    /\ forall cl cm cr,
         coords_ok G (without_axes (indices G R (fbase G R a)) aa) cl = true ->
         coords_ok G (without_axes (indices G R (fbase G R b)) (ab ++ bb)) cm = true ->
         coords_ok G (without_axes (indices G R (fbase G R c)) cb) cr = true ->
         V G R y12 (cl ++ cm ++ cr) = V G R y21 (cl ++ cm ++ cr).
Proof. exact assoc_chain_modes_partial. Qed.

(* ---- 5. several indices at once, or one after another ---- *)
(* Contracting a and b over the pairs (i1, j1), (i2, j2) in one call equals
   contracting over (i1, j1) and then tracing the pair (i2, j2) of the result
   with the fermionic einsum "..x..x..->....": same labels, same values.
   second_pair = (rank of the intermediate, position of a's leg i2, of b's leg j2);
   trace_lhs n pa pb labels the positions pa, pb with n and the others 0, 1, ...
   FULL statement, NOT proved at value level.  The sign identity behind it, per
   pair of aligned sectors with x = parity of the traced charge, w = parity of the
   charge contracted first: the contraction signs of the one-call route differ
   from those of the first step by x.(odd free legs of a after i2) + x.w
   + x.[a's leg i2 is a ket] on a and x.w + x.(odd free legs of b before j2) on b;
   the einsum sorts the traced pair to the front as (bra, ket), which costs
   x.(odd legs between the two positions) + x.[a's leg i2 is a ket]: equal.
   Checked by vm_compute (ModesEx.one_by_one_values: both directions, all modes). *)
Definition C04_one_by_one_full : Prop :=
  forall (G : Symmetry) (R : Ring) (m m1 : tmode),
  GroupLaws G -> OrderLaws G -> NegLaws R -> SumLaws R -> CommLaws R ->
  forall (a b : farray G R) (i1 i2 j1 j2 : nat),
  wf_fermi G R a = true -> wf_fermi G R b = true -> pair_ok G R a b [i1; i2] [j1; j2] ->
  distinct (foddpos G R a ++ foddpos G R b) ->
  let '(n1, pa, pb) := second_pair G R a b i1 i2 j1 j2 in
  exists y y1 e,
    f_tensordot2 G R a b (naxes [i1; i2] [j1; j2]) m = Some y
    /\ f_tensordot2 G R a b (naxes [i1] [j1]) m1 = Some y1
    /\ f_einsum G R y1 (trace_lhs n1 pa pb) (trace_rhs n1) = Some e
    /\ foddpos G R y1 = foddpos G R y
    /\ forall cl cr,
         coords_ok G (without_axes (indices G R (fbase G R a)) [i1; i2]) cl = true ->
         coords_ok G (without_axes (indices G R (fbase G R b)) [j1; j2]) cr = true ->
         sem G R e (cl ++ cr) = V G R y (cl ++ cr).

(* PROVED part: the labels of a contraction of a with b depend neither on WHICH
   legs are contracted nor on the mode (they are resolved from the two
   odd-position lists): the one-pair and the two-pair contraction carry the same
   labels. *)
Theorem C04_contraction_labels_partial :
  forall (G : Symmetry), GroupLaws G -> forall (R : Ring), NegLaws R ->
  forall (a b : farray G R) (axes axes' : nat + (list Z * list Z)) (aa ab aa' ab' : list nat) (m m' : tmode) (y y' : farray G R),
  wf_array G R (fbase G R a) = true -> wf_array G R (fbase G R b) = true ->
  parse_axes (ndim G R (fbase G R a)) (ndim G R (fbase G R b)) axes = Some (aa, ab) ->
  parse_axes (ndim G R (fbase G R a)) (ndim G R (fbase G R b)) axes' = Some (aa', ab') ->
  NoDup aa -> (forall i, In i aa -> i < ndim G R (fbase G R a)) ->
  NoDup ab -> (forall i, In i ab -> i < ndim G R (fbase G R b)) ->
  NoDup aa' -> (forall i, In i aa' -> i < ndim G R (fbase G R a)) ->
  NoDup ab' -> (forall i, In i ab' -> i < ndim G R (fbase G R b)) ->
  f_tensordot2 G R a b axes m = Some y -> f_tensordot2 G R a b axes' m' = Some y' ->
  foddpos G R y' = foddpos G R y.
Proof. exact contraction_labels. Qed.

Print Assumptions C04_transpose_observational.
Print Assumptions C04_swap_operands_all_modes.
Print Assumptions C04_axis_listing_all_modes.
Print Assumptions C04_pre_transpose_first_all_modes.
Print Assumptions C04_pre_transpose_second_all_modes.
Print Assumptions C04_assoc_chain_second_stage_modes_partial.
Print Assumptions C04_contraction_labels_partial.
