(* Props/C04e.v — property C04, TRANSLATOR tie of the label-resolution routine.

   `resolve_combined_oddpos_gen` (Gen/OddposGen.v) is regenerated on every check
   by tr/gen_oddpos.py from the CURRENT source text of
   symmray/fermionic_core.py::resolve_combined_oddpos: the early exit, the
   initial sign, the test and the body of the `while` loop (conditions, which
   branch negates the sign, which branch pops, how `i` moves, the ValueError)
   are all read from the source; `b < a` is a call of the translated
   `FermionicOperator.__lt__` (`op_lt`, Gen/OpOrder.v).  Only the fuel-driven
   iterator `while_fuel` is fixed text.  Statements only; proofs in
   Proofs/OddposGenProofs.v.

   Result: GenDone flip labels | GenRaise (ValueError) | GenOutOfFuel (model only);
   `gen_result_option` turns it into the hand model's `option (bool * list op)`;
   `resolve_gen l r p` is the generated function run with fuel (|l|+|r|)^2 + 1. *)
From SV Require Import Base.Prelude Gen.OpOrder Gen.OddposGen Model.Graded Model.Oddpos
  Proofs.OddposProofs Proofs.OddposGenProofs.
From Coq Require Import Permutation Sorted.
Local Open Scope nat_scope.

(* generated = hand model, for all label lists and both parity flags, given at least the hand model's fuel *)
Theorem C04_gen_resolve_eq_model : forall (fuel : nat) (l r : list op) (p : bool),
  fuel_bound (length (l ++ r)) <= fuel ->
  gen_result_option (resolve_combined_oddpos_gen fuel l r p) = resolve l r p.
Proof. exact gen_option_eq_model. Qed.

(* ... including which of Raise / Done it is *)
Theorem C04_gen_resolve_eq_model_raw : forall (fuel : nat) (l r : list op) (p : bool),
  fuel_bound (length (l ++ r)) <= fuel ->
  gen_to_result (resolve_combined_oddpos_gen fuel l r p) = resolve_raw l r p.
Proof. exact gen_eq_model. Qed.

(* same fuel convention as the literal index form of the hand model: equal for EVERY fuel,
   the out-of-fuel answer included *)
Theorem C04_gen_resolve_eq_idx_any_fuel : forall (fuel : nat) (l r : list op) (p : bool),
  gen_to_result (resolve_combined_oddpos_gen fuel l r p)
  = if is_nil l && is_nil r then Done false []
    else resolve_idx fuel (p && Nat.odd (length r)) 0 (l ++ r).
Proof. exact gen_eq_idx. Qed.

(* the loop read from the source terminates: fuel (|l|+|r|)^2 + 1 is enough for every input *)
Theorem C04_gen_resolve_terminates : forall (fuel : nat) (l r : list op) (p : bool),
  fuel_bound (length (l ++ r)) <= fuel ->
  resolve_combined_oddpos_gen fuel l r p <> GenOutOfFuel.
Proof. exact gen_terminates. Qed.

(* more fuel never changes the answer *)
Theorem C04_gen_resolve_fuel_irrelevant : forall (fuel : nat) (l r : list op) (p : bool),
  fuel_bound (length (l ++ r)) <= fuel ->
  gen_result_option (resolve_combined_oddpos_gen fuel l r p) = resolve_gen l r p.
Proof. exact gen_fuel_irrelevant. Qed.

(* conjugate-free inputs: THE sorted merge, sign = (left odd and |r| odd) xor inversion parity *)
Theorem C04_gen_resolve_sorted_merge_sign : forall (fuel : nat) (l r : list op) (p : bool),
  fuel_bound (length (l ++ r)) <= fuel -> distinct (l ++ r) ->
  exists w, gen_result_option (resolve_combined_oddpos_gen fuel l r p)
            = Some (xorb (p && Nat.odd (length r)) (Nat.odd (op_inv (l ++ r))), w)
            /\ Sorted lt_op w /\ Permutation w (l ++ r).
Proof. exact gen_distinct. Qed.

(* every input: sorted result, congruent to the input under graded swaps and conjugate-pair removals *)
Theorem C04_gen_resolve_spec : forall (fuel : nat) (l r : list op) (p : bool) (s : bool) (w : list op),
  fuel_bound (length (l ++ r)) <= fuel ->
  gen_result_option (resolve_combined_oddpos_gen fuel l r p) = Some (s, w) ->
  Sorted lt_op w /\ rws (p && Nat.odd (length r), l ++ r) (s, w).
Proof. exact gen_spec. Qed.

(* route independence of labels and global sign, for the generated function *)
Theorem C04_gen_resolve_assoc : forall (a b c : list op) (pa pb : bool),
  distinct (a ++ b ++ c) ->
  exists s1 ab s2 t1 bc t2 abc,
    resolve_gen a b pa = Some (s1, ab) /\ resolve_gen ab c (xorb pa pb) = Some (s2, abc) /\
    resolve_gen b c pb = Some (t1, bc) /\ resolve_gen a bc pa = Some (t2, abc) /\
    xorb s1 s2 = xorb t1 t2 /\
    Sorted lt_op abc /\ Permutation abc (a ++ b ++ c).
Proof. exact gen_assoc. Qed.

Theorem C04_gen_resolve_swap : forall (a b : list op) (pa pb : bool),
  distinct (a ++ b) ->
  exists s t w,
    resolve_gen a b pa = Some (s, w) /\ resolve_gen b a pb = Some (t, w) /\
    xorb s t = xorb (xorb (pa && Nat.odd (length b)) (pb && Nat.odd (length a)))
                    (Nat.odd (length a) && Nat.odd (length b)).
Proof. exact gen_swap. Qed.

Print Assumptions C04_gen_resolve_eq_model.
Print Assumptions C04_gen_resolve_eq_model_raw.
Print Assumptions C04_gen_resolve_eq_idx_any_fuel.
Print Assumptions C04_gen_resolve_terminates.
Print Assumptions C04_gen_resolve_fuel_irrelevant.
Print Assumptions C04_gen_resolve_sorted_merge_sign.
Print Assumptions C04_gen_resolve_spec.
Print Assumptions C04_gen_resolve_assoc.
Print Assumptions C04_gen_resolve_swap.
