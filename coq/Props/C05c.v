(* Props/C05c.v — property C05, continuation: "BOTH FUSING STRATEGIES PRODUCE
   IDENTICAL RESULTS".  Statements only; proofs live in Proofs/FuseConcatProofs.v
   (on top of Proofs/FuseGroups.v, FuseProofs.v, FuseTensor.v, OrderProofs.v).

   Model/Array.fuse_core models `_fuse_blocks_via_insert` (zeros + slice
   assignment); Model/FuseConcat.fuse_concat models `_fuse_blocks_via_concat`
   (group the transposed + reshaped sub-blocks by fused sector and sub-sector key,
   then concatenate recursively group by group along axis position + g, in the
   order of the fused index's extent table, a missing leaf filled with zeros of
   the shape computed from that table).  fuse_concat is tied to the implementation
   by harness/tie_concat.py.

   Setting, for every symmetry G with GroupLaws G and OrderLaws G, every ring, all
   ranks, all tables: x a wf_array, `groups` an ARBITRARY list of non-empty, pairwise
   disjoint groups of distinct in-range axes: one or several multi-axis groups,
   single-axis groups anywhere, any order, non-adjacent axes, any subset of the
   valid sectors stored (so leaves of the recursion may be missing).

   1. C05_locate_spec / C05_get_tconcat: numpy.concatenate read back: an index of
      the result lies in exactly one part (`locate`), at the offset given there.
   2. C05_concat_eq_insert: fuse_concat x groups = fuse_core x groups — Leibniz
      equality of the two arrays: the same index tables and charge, the same
      sectors IN THE SAME dictionary ORDER, under each sector a tensor of the same
      shape and the same data.  C05_concat_eq_insert_observable spells the
      components out; C05_concat_layout_groups is the layout theorem of
      Props/C05b.v (C05_fuse_layout_groups) word for word for the concat strategy:
      both strategies have the same piecewise description over the sub-ranges.
   3. C05_a_fuse_concat_eq: the public entry fuse( *groups, mode="concat") with
      empty groups expanded equals fuse( *groups, mode="insert").

   Nothing is partial here: the statement covers one group, one group plus
   single-axis groups, and several groups at once. *)
From SV Require Import Base.Prelude Base.Sym Base.Tensor Model.Sectors Model.Array Model.Wf Model.FuseConcat
  Model.SymInst Proofs.OrderProofs Proofs.FuseTensor Proofs.FuseProofs Proofs.FuseGroups Proofs.FuseConcatProofs.
Local Open Scope nat_scope.

(* ---- 1: concatenation read back ---- *)
Theorem C05_locate_spec : forall (sizes : list nat) (i : nat), i < nsum sizes ->
  fst (locate sizes i) < length sizes /\
  snd (locate sizes i) < nth (fst (locate sizes i)) sizes 0 /\
  i = nsum (firstn (fst (locate sizes i)) sizes) + snd (locate sizes i).
Proof. exact locate_spec. Qed.

Theorem C05_get_tconcat : forall (R : Ring) (t0 : tensor R) (ts : list (tensor R)) (axis : nat) (idx : list nat),
  inb (tshape (tconcat R (t0 :: ts) axis)) idx = true ->
  get R (tconcat R (t0 :: ts) axis) idx =
  get R (nth (fst (locate (csizes R (t0 :: ts) axis) (nth axis idx 0))) (t0 :: ts) t0)
        (set_nth idx axis (snd (locate (csizes R (t0 :: ts) axis) (nth axis idx 0)))).
Proof. exact get_tconcat. Qed.

Theorem C05_tshape_tconcat : forall (R : Ring) (t0 : tensor R) (ts : list (tensor R)) (axis : nat),
  tshape (tconcat R (t0 :: ts) axis) = set_nth (tshape t0) axis (nsum (csizes R (t0 :: ts) axis)).
Proof. exact tshape_tconcat. Qed.

(* ---- 2: the two strategies agree ---- *)
Theorem C05_concat_eq_insert : forall (G : Symmetry) (R : Ring), GroupLaws G -> OrderLaws G ->
  forall (x : aarray G R) (groups : list (list nat)),
  wf_array G R x = true ->
  Forall (fun g => g <> []) groups -> NoDup (concat groups) ->
  Forall (fun ax => ax < length (indices G R x)) (concat groups) ->
  fuse_concat G R x groups = fuse_core G R x groups.
Proof. exact concat_eq_insert. Qed.

Theorem C05_concat_eq_insert_observable : forall (G : Symmetry) (R : Ring), GroupLaws G -> OrderLaws G ->
  forall (x : aarray G R) (groups : list (list nat)),
  wf_array G R x = true ->
  Forall (fun g => g <> []) groups -> NoDup (concat groups) ->
  Forall (fun ax => ax < length (indices G R x)) (concat groups) ->
  indices G R (fuse_concat G R x groups) = indices G R (fuse_core G R x groups) /\
  charge G R (fuse_concat G R x groups) = charge G R (fuse_core G R x groups) /\
  sectors G R (fuse_concat G R x groups) = sectors G R (fuse_core G R x groups) /\
  (forall k, lookup (list_eqb (ceqb G)) k (blocks G R (fuse_concat G R x groups)) =
             lookup (list_eqb (ceqb G)) k (blocks G R (fuse_core G R x groups))) /\
  (forall k Tc Ti, In (k, Tc) (blocks G R (fuse_concat G R x groups)) ->
                   In (k, Ti) (blocks G R (fuse_core G R x groups)) ->
                   tshape Tc = tshape Ti /\ tdata Tc = tdata Ti).
Proof. exact concat_eq_insert_observable. Qed.

Theorem C05_concat_layout_groups : forall (G : Symmetry) (R : Ring), GroupLaws G -> OrderLaws G ->
  forall (x : aarray G R) (groups : list (list nat)),
  wf_array G R x = true ->
  Forall (fun g => g <> []) groups -> NoDup (concat groups) ->
  Forall (fun ax => ax < length (indices G R x)) (concat groups) ->
  let ixs := indices G R x in
  let xf := fuse_concat G R x groups in
  let nixs := fused_indices G ixs (sectors G R x) groups in
  let perm := fuse_perm (length ixs) groups in
  indices G R xf = nixs /\ charge G R xf = charge G R x /\
  NoDup (sectors G R xf) /\
  (forall k, In k (sectors G R xf) <-> exists s, In s (sectors G R x) /\ fused_sector G ixs groups s = k) /\
  (forall k T, lookup (list_eqb (ceqb G)) k (blocks G R xf) = Some T ->
     tshape T = block_shape G nixs k /\ length (tdata T) = shape_size (tshape T)) /\
  (forall s b, In (s, b) (blocks G R x) ->
     exists T, lookup (list_eqb (ceqb G)) (fused_sector G ixs groups s) (blocks G R xf) = Some T /\
       tbox R T (fuse_selector G ixs nixs groups s) =
       treshape R (ttranspose R b perm) (fused_block_shape G ixs groups s)) /\
  (forall k T idx, lookup (list_eqb (ceqb G)) k (blocks G R xf) = Some T -> inb (tshape T) idx = true ->
     (forall s, In s (sectors G R x) -> fused_sector G ixs groups s = k ->
        in_range (fuse_selector G ixs nixs groups s) idx = false) ->
     get R T idx = r0 R).
Proof. exact concat_layout_groups. Qed.

(* ---- 3: the public entry, empty groups expanded ---- *)
Theorem C05_a_fuse_concat_eq : forall (G : Symmetry) (R : Ring), GroupLaws G -> OrderLaws G ->
  forall (x : aarray G R) (groups : list (list nat)),
  wf_array G R x = true -> NoDup (concat groups) -> Forall (fun ax => ax < ndim G R x) (concat groups) ->
  a_fuse_concat G R x groups = a_fuse G R x groups.
Proof. exact a_fuse_concat_eq. Qed.

Print Assumptions C05_locate_spec.
Print Assumptions C05_get_tconcat.
Print Assumptions C05_tshape_tconcat.
Print Assumptions C05_concat_eq_insert.
Print Assumptions C05_concat_eq_insert_observable.
Print Assumptions C05_concat_layout_groups.
Print Assumptions C05_a_fuse_concat_eq.
