(* Props/C04b.v — property C04 (continuation): route independence at the
   ARRAY / ELEMENT level for the fermionic contraction model `f_tensordot`
   (Model/Fermi.v), block-by-block strategy.  Statements only; proofs live in
   Proofs/RouteProofs.v.

   Vocabulary (Proofs/RouteProofs.v, Proofs/FermiProofs.v, Proofs/WfProofs.v):
     wf_fermi x          the executable validity predicate of C01 for fermionic arrays
     V x cs              the value of x at the (charge, offset) coordinate cs, pending signs applied
                         (= sem (f_value x) cs)
     pair_ok a b aa ab   aa / ab are duplicate-free in-range axes of a / b of equal number, the paired
                         legs have opposite directions and equal charge tables
     naxes aa ab         the axes argument inr (aa, ab) of tensordot
     distinct l          the odd-position labels in l are pairwise different (C04's quantifier)
     CommLaws R          multiplication in the ring is commutative, associative, distributive
     count_odd s axs     parity of the number of odd charges of sector s at the axes axs   *)
From SV Require Import Base.Prelude Base.Sym Base.Tensor Gen.OpOrder Model.Sectors Model.Array Model.Arith
  Model.Fermi Model.Graded Model.Oddpos Model.Wf Proofs.OrderProofs Proofs.OddposProofs Proofs.Tdot
  Proofs.WfProofs Proofs.FermiProofs Proofs.RouteProofs.
From Coq Require Import Permutation.
Local Open Scope nat_scope.

(* ---- 1. the parity of a stored sector ---- *)
(* In a valid array every stored sector has an odd number of odd charges exactly
   when the total charge is odd (any listing w of all the axes). *)
Theorem C04_sector_parity :
  forall (G : Symmetry), GroupLaws G -> forall (R : Ring) (x : aarray G R) (s : list (C G)),
  wf_array G R x = true -> In s (sectors G R x) ->
  count_odd G s (seq 0 (ndim G R x)) = parity G (charge G R x)
  /\ Nat.odd (n_odd (par_of G s)) = parity G (charge G R x).
Proof. exact sector_parity. Qed.

Theorem C04_sector_parity_perm :
  forall (G : Symmetry), GroupLaws G -> forall (R : Ring) (x : aarray G R) (s : list (C G)) (w : list nat),
  wf_array G R x = true -> In s (sectors G R x) -> Permutation w (seq 0 (ndim G R x)) ->
  count_odd G s w = parity G (charge G R x).
Proof. exact sector_parity_perm. Qed.

(* ---- 2. the label resolution inside f_tensordot is the one of Props/C04.v ---- *)
Theorem C04_resolve_oddpos_is_resolve :
  forall (p : bool) (l r : list op), resolve_oddpos p l r = resolve l r p.
Proof. exact resolve_oddpos_is_resolve. Qed.

(* ---- 3. which operand is passed first ---- *)
(* b.a equals a.b followed by the fermionic transpose that moves b's free legs
   in front of a's free legs: same labels, same value at every coordinate. *)
Theorem C04_swap_operands :
  forall (G : Symmetry), GroupLaws G -> OrderLaws G ->
  forall (R : Ring), NegLaws R -> SumLaws R -> CommLaws R ->
  forall (a b : farray G R) (aa ab : list nat),
  wf_fermi G R a = true -> wf_fermi G R b = true -> pair_ok G R a b aa ab ->
  distinct (foddpos G R a ++ foddpos G R b) ->
  exists y1 y2,
    f_tensordot G R a b (naxes aa ab) MBlockwise = Some y1
    /\ f_tensordot G R b a (naxes ab aa) MBlockwise = Some y2
    /\ let nl := ndim G R (fbase G R a) - length aa in
       let nr := ndim G R (fbase G R b) - length ab in
       let t := f_transpose G R y1 (seq nl nr ++ seq 0 nl) true in
       foddpos G R y2 = foddpos G R t
       /\ forall cl cr,
            coords_ok G (without_axes (indices G R (fbase G R a)) aa) cl = true ->
            coords_ok G (without_axes (indices G R (fbase G R b)) ab) cr = true ->
            V G R y2 (cr ++ cl) = V G R t (cr ++ cl).
Proof. exact swap_operands. Qed.

(* ---- 4. the order in which the contracted axis pairs are listed ---- *)
(* The same re-listing p applied to both axis lists: same labels, same values. *)
Theorem C04_axis_listing :
  forall (G : Symmetry), GroupLaws G -> OrderLaws G ->
  forall (R : Ring), NegLaws R -> SumLaws R ->
  forall (a b : farray G R) (aa ab p : list nat),
  wf_fermi G R a = true -> wf_fermi G R b = true -> pair_ok G R a b aa ab ->
  distinct (foddpos G R a ++ foddpos G R b) -> Permutation p (seq 0 (length aa)) ->
  exists y y',
    f_tensordot G R a b (naxes aa ab) MBlockwise = Some y
    /\ f_tensordot G R a b (naxes (permuted 0 aa p) (permuted 0 ab p)) MBlockwise = Some y'
    /\ foddpos G R y' = foddpos G R y
    /\ forall cl cr,
         coords_ok G (without_axes (indices G R (fbase G R a)) aa) cl = true ->
         coords_ok G (without_axes (indices G R (fbase G R b)) ab) cr = true ->
         V G R y' (cl ++ cr) = V G R y (cl ++ cr).
Proof. exact axis_listing. Qed.

(* ---- 5. a fermionic transpose applied to the first operand beforehand ---- *)
(* a' = transpose(a, p) (leg i of a' is leg p[i] of a), contracted along the
   relabelled axes aa' = positions of aa in p.  The result is the contraction
   of a itself, followed by the fermionic transpose that lists a's free legs
   in the order a' has them (ql = position in a's free legs `la` of each free
   leg of a', in a' order; b's free legs stay).  When p keeps the relative
   order of a's free legs, ql is the identity and the two results coincide. *)
Theorem C04_pre_transpose_first :
  forall (G : Symmetry), GroupLaws G -> OrderLaws G ->
  forall (R : Ring), NegLaws R -> SumLaws R ->
  forall (a b : farray G R) (aa ab p : list nat),
  wf_fermi G R a = true -> wf_fermi G R b = true -> pair_ok G R a b aa ab ->
  Permutation p (seq 0 (ndim G R (fbase G R a))) ->
  distinct (foddpos G R a ++ foddpos G R b) ->
  let na := ndim G R (fbase G R a) in
  let aa' := map (fun j => index_of j p) aa in
  let la := rest_axes na aa in
  let ql := map (fun j => index_of j la) (map (fun i => nth i p 0) (rest_axes na aa')) in
  exists y y',
    f_tensordot G R a b (naxes aa ab) MBlockwise = Some y
    /\ f_tensordot G R (f_transpose G R a p true) b (naxes aa' ab) MBlockwise = Some y'
    /\ let t := f_transpose G R y (ql ++ seq (length la) (ndim G R (fbase G R b) - length ab)) true in
       foddpos G R y' = foddpos G R t
       /\ forall cl cr,
            coords_ok G (without_axes (indices G R (fbase G R a)) aa) cl = true ->
            coords_ok G (without_axes (indices G R (fbase G R b)) ab) cr = true ->
            V G R y' (permuted (ident G, 0) cl ql ++ cr) = V G R t (permuted (ident G, 0) cl ql ++ cr).
Proof. exact pre_transpose_a. Qed.

(* ... and the same for a transpose of the SECOND operand: b' = transpose(b, p),
   contracted along ab' = positions of ab in p; the result is the contraction
   of b itself with b's free legs re-ordered the way b' lists them (qr), a's
   free legs staying in front. *)
Theorem C04_pre_transpose_second :
  forall (G : Symmetry), GroupLaws G -> OrderLaws G ->
  forall (R : Ring), NegLaws R -> SumLaws R ->
  forall (a b : farray G R) (aa ab p : list nat),
  wf_fermi G R a = true -> wf_fermi G R b = true -> pair_ok G R a b aa ab ->
  Permutation p (seq 0 (ndim G R (fbase G R b))) ->
  distinct (foddpos G R a ++ foddpos G R b) ->
  let nb := ndim G R (fbase G R b) in
  let ab' := map (fun j => index_of j p) ab in
  let rb := rest_axes nb ab in
  let qr := map (fun j => index_of j rb) (map (fun i => nth i p 0) (rest_axes nb ab')) in
  let nl := ndim G R (fbase G R a) - length aa in
  exists y y',
    f_tensordot G R a b (naxes aa ab) MBlockwise = Some y
    /\ f_tensordot G R a (f_transpose G R b p true) (naxes aa ab') MBlockwise = Some y'
    /\ let t := f_transpose G R y (seq 0 nl ++ map (fun i => nl + i) qr) true in
       foddpos G R y' = foddpos G R t
       /\ forall cl cr,
            coords_ok G (without_axes (indices G R (fbase G R a)) aa) cl = true ->
            coords_ok G (without_axes (indices G R (fbase G R b)) ab) cr = true ->
            V G R y' (cl ++ permuted (ident G, 0) cr qr) = V G R t (cl ++ permuted (ident G, 0) cr qr).
Proof. exact pre_transpose_b. Qed.

(* ---- 6. associativity: the order in which pairs are contracted ---- *)
(* A chain a - b - c: a and b share the legs (aa, ab), b and c share (bb, cb),
   ab and bb are different legs of b, all axes in general position.  Route 1
   contracts a with b first (the legs bb of b sit in the intermediate result at
   the positions bb1), route 2 contracts b with c first (the legs ab of b sit at
   ab2).  Both routes are defined, leave the same labels and the same value at
   every coordinate (cl, cm, cr = coordinates of the free legs of a, b, c). *)
Theorem C04_assoc_chain :
  forall (G : Symmetry), GroupLaws G -> OrderLaws G ->
  forall (R : Ring), NegLaws R -> SumLaws R -> CommLaws R ->
  forall (a b c : farray G R) (aa ab bb cb : list nat),
  wf_fermi G R a = true -> wf_fermi G R b = true -> wf_fermi G R c = true ->
  pair_ok G R a b aa ab -> pair_ok G R b c bb cb ->
  (forall j, In j ab -> ~ In j bb) ->
  distinct (foddpos G R a ++ foddpos G R b ++ foddpos G R c) ->
  let nl := length (rest_axes (ndim G R (fbase G R a)) aa) in
  let bb1 := map (fun j => nl + index_of j (rest_axes (ndim G R (fbase G R b)) ab)) bb in
  let ab2 := map (fun j => index_of j (rest_axes (ndim G R (fbase G R b)) bb)) ab in
  exists y1 y12 y2 y21,
    f_tensordot G R a b (naxes aa ab) MBlockwise = Some y1
    /\ f_tensordot G R y1 c (naxes bb1 cb) MBlockwise = Some y12
    /\ f_tensordot G R b c (naxes bb cb) MBlockwise = Some y2
    /\ f_tensordot G R a y2 (naxes aa ab2) MBlockwise = Some y21
    /\ foddpos G R y12 = foddpos G R y21
    /\ forall cl cm cr,
         coords_ok G (without_axes (indices G R (fbase G R a)) aa) cl = true ->
         coords_ok G (without_axes (indices G R (fbase G R b)) (ab ++ bb)) cm = true ->
         coords_ok G (without_axes (indices G R (fbase G R c)) cb) cr = true ->
         V G R y12 (cl ++ cm ++ cr) = V G R y21 (cl ++ cm ++ cr).
Proof. exact assoc_chain. Qed.

Print Assumptions C04_sector_parity.
Print Assumptions C04_sector_parity_perm.
Print Assumptions C04_resolve_oddpos_is_resolve.
Print Assumptions C04_swap_operands.
Print Assumptions C04_axis_listing.
Print Assumptions C04_pre_transpose_first.
Print Assumptions C04_pre_transpose_second.
Print Assumptions C04_assoc_chain.
