(* Props/C19b.v — continuation of Props/C19.v (audited together with it):
   the FULL invariant of the bond loop of `parse_edges_to_site_info`
   (Model.Ham.site_info = interpreter of the loop skeleton generated into
   Gen/Ham.v from networks.py).  Statements only; proofs in
   Proofs/SiteInfoProofs.v.

   For ANY site type with a correct boolean equality, ANY edge list (unbounded
   number of sites / edges; induction over the edge list), any bond dimension
   and any optional physical dimension `pd`.  The first `coordination` entries
   of `si_inds` / `si_duals` are the bond indices, the optional physical index
   comes last (C19_site_info_sites_coordination). *)
From SV Require Import Base.Prelude Model.HamBase Gen.Ham Model.Ham Proofs.HamProofs Proofs.SiteInfoProofs.
Open Scope Z_scope.

Definition eqb_correct_b {S : Type} (seqb : S -> S -> bool) : Prop := forall a b, seqb a b = true <-> a = b.
Definition total_b {S : Type} (seqb sltb : S -> S -> bool) : Prop :=
  forall a b, sltb a b = true \/ seqb a b = true \/ sltb b a = true.
Definition strict_total_b {S : Type} (seqb sltb : S -> S -> bool) : Prop :=
  (forall a, sltb a a = false) /\
  (forall a b c, sltb a b = true -> sltb b c = true -> sltb a c = true) /\
  total_b seqb sltb.
Definition no_self_loop {S : Type} (edges : list (S * S)) : Prop := forall a b, In (a, b) edges -> a <> b.
(* the name format is injective on ordered pairs (FALSE for the default "b{}-{}" on
   string labels containing '-': C19_site_info_names_collide_refuted, finding F15) *)
Definition injective_names {S Nm : Type} (bond_name : S -> S -> Nm) : Prop :=
  forall a b c d, bond_name a b = bond_name c d -> a = c /\ b = d.

(* (d) The returned table is a dict (no key twice) whose keys are exactly the
   end points; for every site the recorded coordination is its degree = the
   number of incident edges, WHATEVER the optional physical index; the first
   `coordination` indices are bond indices (all of dimension bd), the physical
   index (direction 0, dimension p) comes last. *)
Theorem C19_site_info_sites_coordination :
  forall (S Nm : Type) (seqb sltb : S -> S -> bool) (bond_name : S -> S -> Nm) (phys_name : S -> Nm),
    eqb_correct_b seqb ->
    forall (edges : list (S * S)) (bd : Z) (pd : option Z),
      no_self_loop edges ->
      let info := site_info seqb sltb bond_name phys_name edges bd pd in
      NoDup (map fst info) /\
      (forall v, lookup seqb v info = None <-> deg seqb v edges = 0) /\
      (forall v i, lookup seqb v info = Some i ->
         let d := deg seqb v edges in
         0 < d /\ d = Z.of_nat (length (filter (incident seqb v) edges)) /\
         si_coord i = Some d /\
         si_inds i = firstn (Z.to_nat d) (si_inds i) ++ match pd with Some _ => [phys_name v] | None => [] end /\
         si_duals i = firstn (Z.to_nat d) (si_duals i) ++ match pd with Some _ => [0] | None => [] end /\
         si_shape i = repeat bd (Z.to_nat d) ++ match pd with Some p => [p] | None => [] end /\
         length (firstn (Z.to_nat d) (si_inds i)) = Z.to_nat d /\
         length (firstn (Z.to_nat d) (si_duals i)) = Z.to_nat d).
Proof. exact @site_info_sites_coordination. Qed.

(* (a)(b)(c), existence: every listed bond (a,b) contributes the ONE name
   bond_name lo hi (lo = smaller, hi = larger end in the order used by the swap
   test); it is among the bond indices of lo with direction 0 and among those of
   hi with direction 1. *)
Theorem C19_site_info_bond_ends :
  forall (S Nm : Type) (seqb sltb : S -> S -> bool) (bond_name : S -> S -> Nm) (phys_name : S -> Nm),
    eqb_correct_b seqb -> total_b seqb sltb ->
    forall (edges : list (S * S)) (bd : Z) (pd : option Z),
      no_self_loop edges ->
      let info := site_info seqb sltb bond_name phys_name edges bd pd in
      forall a b, In (a, b) edges ->
        let lo := if sltb b a then b else a in
        let hi := if sltb b a then a else b in
        lo <> hi /\ sltb lo hi = true /\
        exists ilo ihi,
          lookup seqb lo info = Some ilo /\ lookup seqb hi info = Some ihi /\
          In (bond_name lo hi, 0) (combine (firstn (Z.to_nat (deg seqb lo edges)) (si_inds ilo)) (si_duals ilo)) /\
          In (bond_name lo hi, 1) (combine (firstn (Z.to_nat (deg seqb hi edges)) (si_inds ihi)) (si_duals ihi)) /\
          In (bond_name lo hi, 0) (combine (si_inds ilo) (si_duals ilo)) /\
          In (bond_name lo hi, 1) (combine (si_inds ihi) (si_duals ihi)).
Proof. exact site_info_bond_ends_stmt. Qed.

(* (a)(b)(c)(e), uniqueness, for a simple graph and an injective name format:
   distinct bonds get distinct names; at every site the bond indices are
   pairwise distinct; the name of a bond occurs among the bond indices of a
   site v only if v is one of its two ends, with direction 0 at the smaller and
   1 at the larger end (so: exactly once at each end, nowhere else). *)
Theorem C19_site_info_bond_unique :
  forall (S Nm : Type) (seqb sltb : S -> S -> bool) (bond_name : S -> S -> Nm) (phys_name : S -> Nm),
    eqb_correct_b seqb ->
    forall (edges : list (S * S)) (bd : Z) (pd : option Z),
      injective_names bond_name -> simple_graph edges ->
      let info := site_info seqb sltb bond_name phys_name edges bd pd in
      (forall a b c d, In (a, b) edges -> In (c, d) edges -> (a, b) <> (c, d) ->
         bond_name (if sltb b a then b else a) (if sltb b a then a else b) <>
         bond_name (if sltb d c then d else c) (if sltb d c then c else d)) /\
      (forall v iv, lookup seqb v info = Some iv ->
         NoDup (firstn (Z.to_nat (deg seqb v edges)) (si_inds iv)) /\
         forall a b, In (a, b) edges ->
           let lo := if sltb b a then b else a in
           let hi := if sltb b a then a else b in
           forall du, In (bond_name lo hi, du)
                         (combine (firstn (Z.to_nat (deg seqb v edges)) (si_inds iv)) (si_duals iv)) ->
                      (v = lo /\ du = 0) \/ (v = hi /\ du = 1)).
Proof. exact @site_info_bond_unique. Qed.

(* The statement kept as `Definition C19_site_info_full` in Props/C19.v, with
   the hypothesis it lacks (the physical index name is not a bond name, or there
   is no physical index): proved. *)
Theorem C19_site_info_full_fixed :
  forall (S Nm : Type) (seqb sltb : S -> S -> bool) (bond_name : S -> S -> Nm) (phys_name : S -> Nm),
    eqb_correct_b seqb -> strict_total_b seqb sltb ->
    injective_names bond_name ->
    forall (edges : list (S * S)) (bd : Z) (pd : option Z),
      simple_graph edges ->
      (pd = None \/ forall a b v, bond_name a b <> phys_name v) ->
      let info := site_info seqb sltb bond_name phys_name edges bd pd in
      (forall v, 0 < deg seqb v edges ->
                 exists i, lookup seqb v info = Some i /\ si_coord i = Some (deg seqb v edges)) /\
      (forall a b, In (a, b) edges ->
         let lo := if sltb b a then b else a in
         let hi := if sltb b a then a else b in
         exists ilo ihi,
           lookup seqb lo info = Some ilo /\ lookup seqb hi info = Some ihi /\
           In (bond_name lo hi, 0) (combine (si_inds ilo) (si_duals ilo)) /\
           In (bond_name lo hi, 1) (combine (si_inds ihi) (si_duals ihi)) /\
           (forall v iv, lookup seqb v info = Some iv -> In (bond_name lo hi) (si_inds iv) -> v = lo \/ v = hi)).
Proof. exact site_info_full_fixed_stmt. Qed.

(* `C19_site_info_full` of Props/C19.v AS WRITTEN THERE (site_info_full_v1 is a
   verbatim copy) is false: with a physical index whose name equals a bond
   name, a third site carries that name (path 0-1-2). *)
Theorem C19_site_info_full_v1_refuted : ~ site_info_full_v1.
Proof. exact site_info_full_v1_refuted. Qed.

(* Finding F15: the default format "b{}-{}" on string labels (code-point lists)
   is not injective; for the simple graph [("1","2-3"); ("1-2","3")] both bonds
   get 'b1-2-3' and the conclusion of C19_site_info_bond_unique fails. *)
Theorem C19_site_info_names_collide_refuted :
  ~ injective_names fmt_default /\
  simple_graph collide_edges /\
  fmt_default s_1 s_2m3 = fmt_default s_1m2 s_3 /\
  ~ (forall v iv, lookup lbl_eqb v (site_info lbl_eqb lbl_ltb fmt_default (fun v => v) collide_edges 2 None) = Some iv ->
       forall du, In (fmt_default s_1 s_2m3, du)
                     (combine (firstn (Z.to_nat (deg lbl_eqb v collide_edges)) (si_inds iv)) (si_duals iv)) ->
                  (v = s_1 /\ du = 0) \/ (v = s_2m3 /\ du = 1)).
Proof. exact site_info_names_collide_refuted. Qed.

Print Assumptions C19_site_info_sites_coordination.
Print Assumptions C19_site_info_bond_ends.
Print Assumptions C19_site_info_bond_unique.
Print Assumptions C19_site_info_full_fixed.
Print Assumptions C19_site_info_full_v1_refuted.
Print Assumptions C19_site_info_names_collide_refuted.
