(* Props/C05h.v — property C05, continuation: "UNFUSING RESTORES THE ORIGINAL
   EXACTLY (every original block bit-for-bit, any extra block exactly zero), FOR
   ABELIAN AND FERMIONIC ARRAYS" — the FERMIONIC half.  Statements only; proofs
   live in Proofs/FermiFuseRoundtrip.v (on top of the abelian round trip of
   Props/C05b.v, the value-level descriptions of the phase operations of
   Props/C09.v and the validity theorems of Props/C01b.v).

   Model (Model/Fermi.v, tied to FermionicArray.fuse / .unfuse by harness/c05.py
   and harness/c09.py): `f_fuse x groups` = fermionic transpose by
   `fuse_perm n groups` (the groups become contiguous windows), phase_flip of the
   non-dual axes of every group whose FIRST axis is dual, a virtual reversal
   (phase_transpose) inside every such group, phase_sync, then the abelian
   fuse_core.  `f_unfuse x axis` = phase_sync, abelian unfuse, and — when the
   fused index is dual — the flip of the non-dual sub-axes and the virtual
   reversal of the unfused window.  `f_value x` = the blocks with the pending
   signs multiplied in (the observable value, Props/C09.v).

   Setting, for every symmetry G with GroupLaws G and OrderLaws G, every ring with
   -(-a) = a and -0 = 0 (ZRing, GRing: the *_ZRing / *_GRing instances), all
   ranks, all tables: x any wf_fermi array (any pending signs, any odd-position
   labels, any subset of sectors stored), `groups` an ARBITRARY non-empty list of
   non-empty pairwise disjoint groups of distinct in-range axes (several groups,
   any order, axes of a group in any order and non-adjacent, single-axis groups).
   `f_unfuse_groups y pos groups` unfuses the fused (non-singlet) groups one after
   another from the last group to the first, exactly as `unfuse_groups` does in
   the abelian theorem C05_unfuse_fuse_groups (C05_fermi_unfuse_groups_is_fold:
   without single-axis groups it is the plain fold of f_unfuse over the fused
   positions).

   1. C05_fermi_unfuse_fuse_groups: the iteration succeeds and returns y with
      - the odd-position labels of x, the charge of x,
      - EXACTLY the index list (tables, directions, sub-index info) of the
        fermionically transposed original xt = f_transpose x (fuse_perm n groups),
      - every block of the VALUE of xt bit for bit (lookup returns the same tensor),
      - every other stored block of the value of y all-zero,
      - equal coordinate semantics `sem` at every coordinate.
      C05_fermi_unfuse_fuse_wf: y is a valid fermionic array.
   2. C05_fermi_unfuse_fuse_single_group: one group of >= 2 axes, one f_unfuse.
      C05_fermi_fuse_single_axis_group: a single-axis group only moves its axis.
   3. How the signs cancel (the three sign sources of fuse against unfuse):
      C05_fermi_unfuse_sign — what f_unfuse applies to a sector is `gsw`: the
      parity of the odd charges on the non-dual positions of the unfused window
      plus tri(#odd charges in the window);  C05_fermi_fuse_sign — what f_fuse
      applies is the product `Hs` of the same `gsw` over all dual-leading windows;
      C05_fermi_unfuse_commutes_with_signs — the abelian unfuse commutes with a
      sector-wise sign whenever every piece inherits the sign of the block it is
      cut from;  C05_fermi_chain — hence the iterated f_unfuse is the iterated
      abelian unfuse followed by the product of the window signs.

   Nothing is partial here. *)
From SV Require Import Base.Prelude Base.Sym Base.Tensor Model.Sectors Model.Array Model.Arith Model.Fermi Model.Graded Model.Wf
  Model.SymInst Proofs.OrderProofs Proofs.FuseGroups Proofs.WfProofs Proofs.LazyProofs Proofs.RouteProofs
  Proofs.FermiFuseRoundtrip.
Local Open Scope nat_scope.

(* ---- 1: any list of groups ---- *)
Theorem C05_fermi_unfuse_fuse_groups :
  forall (G : Symmetry) (R : Ring), GroupLaws G -> OrderLaws G ->
  (forall a : RT R, rneg R (rneg R a) = a) -> rneg R (r0 R) = r0 R ->
  forall (x : farray G R) (groups : list (list nat)),
  wf_fermi G R x = true -> groups <> [] ->
  Forall (fun g => g <> []) groups -> NoDup (concat groups) ->
  Forall (fun ax => ax < ndim G R (fbase G R x)) (concat groups) ->
  let xt := f_transpose G R x (fuse_perm (ndim G R (fbase G R x)) groups) true in
  exists y,
    f_unfuse_groups G R (f_fuse G R x groups) (fuse_position groups) groups = Some y /\
    foddpos G R y = foddpos G R x /\
    indices G R (fbase G R y) = indices G R (fbase G R xt) /\
    charge G R (fbase G R y) = charge G R (fbase G R x) /\
    (forall s b, In (s, b) (blocks G R (f_value G R xt)) ->
       lookup (list_eqb (ceqb G)) s (blocks G R (f_value G R y)) = Some b) /\
    (forall k t, In (k, t) (blocks G R (f_value G R y)) ->
       In (k, t) (blocks G R (f_value G R xt)) \/ Forall (fun e => e = r0 R) (tdata t)) /\
    (forall cs, sem G R (f_value G R y) cs = sem G R (f_value G R xt) cs).
Proof. exact fermi_roundtrip_groups. Qed.

Theorem C05_fermi_unfuse_fuse_wf :
  forall (G : Symmetry) (R : Ring), GroupLaws G -> OrderLaws G ->
  forall (x : farray G R) (groups : list (list nat)) (y : farray G R),
  wf_fermi G R x = true -> groups <> [] ->
  Forall (fun g => g <> []) groups -> NoDup (concat groups) ->
  Forall (fun ax => ax < ndim G R (fbase G R x)) (concat groups) ->
  f_unfuse_groups G R (f_fuse G R x groups) (fuse_position groups) groups = Some y ->
  wf_fermi G R y = true.
Proof. exact fermi_roundtrip_wf. Qed.

Theorem C05_fermi_unfuse_groups_is_fold :
  forall (G : Symmetry) (R : Ring) (y : farray G R) (pos : nat) (gs : list (list nat)),
  Forall (fun g => is_singlet g = false) gs ->
  f_unfuse_groups G R y pos gs =
  fold_right (fun ax acc => match acc with Some z => f_unfuse G R z ax | None => None end)
             (Some y) (seq pos (length gs)).
Proof. exact f_unfuse_groups_axes. Qed.

Theorem C05_fermi_unfuse_fuse_groups_ZRing :
  forall (G : Symmetry), GroupLaws G -> OrderLaws G ->
  forall (x : farray G ZRing) (groups : list (list nat)),
  wf_fermi G ZRing x = true -> groups <> [] ->
  Forall (fun g => g <> []) groups -> NoDup (concat groups) ->
  Forall (fun ax => ax < ndim G ZRing (fbase G ZRing x)) (concat groups) ->
  let xt := f_transpose G ZRing x (fuse_perm (ndim G ZRing (fbase G ZRing x)) groups) true in
  exists y,
    f_unfuse_groups G ZRing (f_fuse G ZRing x groups) (fuse_position groups) groups = Some y /\
    foddpos G ZRing y = foddpos G ZRing x /\
    indices G ZRing (fbase G ZRing y) = indices G ZRing (fbase G ZRing xt) /\
    charge G ZRing (fbase G ZRing y) = charge G ZRing (fbase G ZRing x) /\
    (forall s b, In (s, b) (blocks G ZRing (f_value G ZRing xt)) ->
       lookup (list_eqb (ceqb G)) s (blocks G ZRing (f_value G ZRing y)) = Some b) /\
    (forall k t, In (k, t) (blocks G ZRing (f_value G ZRing y)) ->
       In (k, t) (blocks G ZRing (f_value G ZRing xt)) \/ Forall (fun e => e = r0 ZRing) (tdata t)) /\
    (forall cs, sem G ZRing (f_value G ZRing y) cs = sem G ZRing (f_value G ZRing xt) cs).
Proof. exact fermi_roundtrip_groups_ZRing. Qed.

Theorem C05_fermi_unfuse_fuse_groups_GRing :
  forall (G : Symmetry), GroupLaws G -> OrderLaws G ->
  forall (x : farray G GRing) (groups : list (list nat)),
  wf_fermi G GRing x = true -> groups <> [] ->
  Forall (fun g => g <> []) groups -> NoDup (concat groups) ->
  Forall (fun ax => ax < ndim G GRing (fbase G GRing x)) (concat groups) ->
  let xt := f_transpose G GRing x (fuse_perm (ndim G GRing (fbase G GRing x)) groups) true in
  exists y,
    f_unfuse_groups G GRing (f_fuse G GRing x groups) (fuse_position groups) groups = Some y /\
    foddpos G GRing y = foddpos G GRing x /\
    indices G GRing (fbase G GRing y) = indices G GRing (fbase G GRing xt) /\
    charge G GRing (fbase G GRing y) = charge G GRing (fbase G GRing x) /\
    (forall s b, In (s, b) (blocks G GRing (f_value G GRing xt)) ->
       lookup (list_eqb (ceqb G)) s (blocks G GRing (f_value G GRing y)) = Some b) /\
    (forall k t, In (k, t) (blocks G GRing (f_value G GRing y)) ->
       In (k, t) (blocks G GRing (f_value G GRing xt)) \/ Forall (fun e => e = r0 GRing) (tdata t)) /\
    (forall cs, sem G GRing (f_value G GRing y) cs = sem G GRing (f_value G GRing xt) cs).
Proof. exact fermi_roundtrip_groups_GRing. Qed.

(* ---- 2: one group ---- *)
Theorem C05_fermi_unfuse_fuse_single_group :
  forall (G : Symmetry) (R : Ring), GroupLaws G -> OrderLaws G ->
  (forall a : RT R, rneg R (rneg R a) = a) -> rneg R (r0 R) = r0 R ->
  forall (x : farray G R) (g : list nat),
  wf_fermi G R x = true -> NoDup g -> Forall (fun ax => ax < ndim G R (fbase G R x)) g -> 2 <= length g ->
  let xt := f_transpose G R x (fuse_perm (ndim G R (fbase G R x)) [g]) true in
  exists y,
    f_unfuse G R (f_fuse G R x [g]) (fuse_position [g]) = Some y /\
    wf_fermi G R y = true /\
    foddpos G R y = foddpos G R x /\
    indices G R (fbase G R y) = indices G R (fbase G R xt) /\
    charge G R (fbase G R y) = charge G R (fbase G R x) /\
    (forall s b, In (s, b) (blocks G R (f_value G R xt)) ->
       lookup (list_eqb (ceqb G)) s (blocks G R (f_value G R y)) = Some b) /\
    (forall k t, In (k, t) (blocks G R (f_value G R y)) ->
       In (k, t) (blocks G R (f_value G R xt)) \/ Forall (fun e => e = r0 R) (tdata t)) /\
    (forall cs, sem G R (f_value G R y) cs = sem G R (f_value G R xt) cs).
Proof. exact fermi_roundtrip_single. Qed.

Theorem C05_fermi_fuse_single_axis_group :
  forall (G : Symmetry) (R : Ring), GroupLaws G -> OrderLaws G ->
  (forall a : RT R, rneg R (rneg R a) = a) -> rneg R (r0 R) = r0 R ->
  forall (x : farray G R) (a : nat),
  wf_fermi G R x = true -> a < ndim G R (fbase G R x) ->
  let xt := f_transpose G R x (fuse_perm (ndim G R (fbase G R x)) [[a]]) true in
  let y := f_fuse G R x [[a]] in
  foddpos G R y = foddpos G R x /\
  indices G R (fbase G R y) = indices G R (fbase G R xt) /\
  charge G R (fbase G R y) = charge G R (fbase G R x) /\
  (forall s b, In (s, b) (blocks G R (f_value G R xt)) ->
     lookup (list_eqb (ceqb G)) s (blocks G R (f_value G R y)) = Some b) /\
  (forall k t, In (k, t) (blocks G R (f_value G R y)) ->
     In (k, t) (blocks G R (f_value G R xt)) \/ Forall (fun e => e = r0 R) (tdata t)) /\
  (forall cs, sem G R (f_value G R y) cs = sem G R (f_value G R xt) cs).
Proof. exact fermi_fuse_single_axis. Qed.

(* ---- 3: how the signs cancel ---- *)
(* the sign f_unfuse applies to a sector K of the unfused array (flip of the
   non-dual sub-axes, then the virtual reversal of the window [axis, axis+nnew)):
   a function of the window only *)
Theorem C05_fermi_unfuse_sign :
  forall (G : Symmetry) (K : list (C G)) (axis : nat) (subs : list (index G)) (N : nat),
  axis + length subs <= N -> N <= length K ->
  xorb (count_odd G K (map (fun p => axis + fst p)
                          (filter (fun p => negb (idual G (snd p))) (enumerate subs))))
       (perm_minus G K (Some (map (fun k => if Nat.leb axis k && Nat.ltb k (axis + length subs)
                                            then axis + length subs - (k - axis) - 1 else k) (seq 0 N))))
  = xorb (count_odd G (skipn axis K)
            (filter (fun i => negb (nth i (map (idual G) subs) true)) (seq 0 (length (map (idual G) subs)))))
         (tri (nodd (odd_at G (skipn axis K)) (seq 0 (length (map (idual G) subs))))).
Proof. exact unfuse_sign. Qed.

(* the sign f_fuse applies to a sector s of the transposed array, the groups being
   the consecutive windows `wins a ks`: the product over the windows whose first
   axis is dual of the same window sign *)
Theorem C05_fermi_fuse_sign :
  forall (G : Symmetry) (ixs : list (index G)) (s : list (C G)) (a : nat) (ks : list nat) (n : nat),
  Forall (fun k => 1 <= k) ks -> a + nsum ks <= n -> length s = n ->
  let dualg := filter (fun g => idual G (nth (hd 0 g) ixs (dflt_index G))) (wins a ks) in
  xorb (count_odd G s (flat_map (fun g => filter (fun ax => negb (idual G (nth ax ixs (dflt_index G)))) g) dualg))
       (if is_nil dualg then false
        else perm_minus G s (Some (fold_left (fun vp g =>
               fold_left (fun vp2 p => set_nth vp2 (fst p) (snd p)) (List.combine g (rev g)) vp) dualg (seq 0 n))))
  = Hs G (map (fun g => map (fun ax => idual G (nth ax ixs (dflt_index G))) g) (wins a ks)) (skipn a s).
Proof. exact fuse_sign. Qed.

(* after the initial transpose the groups ARE consecutive windows, and fusing them
   needs no further transposition *)
Theorem C05_fermi_groups_are_windows :
  forall (n pos : nat) (ks : list nat),
  Forall (fun k => 1 <= k) ks -> ks <> [] -> pos + nsum ks <= n ->
  fuse_position (wins pos ks) = pos /\ fuse_perm n (wins pos ks) = seq 0 n /\
  concat (wins pos ks) = seq pos (nsum ks).
Proof. exact windows_facts. Qed.

Theorem C05_fermi_unfuse_commutes_with_signs :
  forall (G : Symmetry) (R : Ring), GroupLaws G -> rneg R (r0 R) = r0 R ->
  forall (Y : aarray G R) (ax : nat) (c c' : list (C G) -> bool),
  (forall s T subs ext e ss, In (s, T) (blocks G R Y) ->
     isub G (nth ax (indices G R Y) (dflt_index G)) = Some (subs, ext) ->
     lookup (ceqb G) (nth ax s (ident G)) ext = Some e -> In ss (map fst e) ->
     c' (replace_with_seq s ax ss) = c s) ->
  a_unfuse G R (a_signmap G R c Y) ax = option_map (a_signmap G R c') (a_unfuse G R Y ax).
Proof. exact a_unfuse_signmap. Qed.

(* one fermionic unfuse on top of a sign map that does not look at the fused axis
   or anything before it *)
Theorem C05_fermi_unfuse_value :
  forall (G : Symmetry) (R : Ring), GroupLaws G ->
  (forall a : RT R, rneg R (rneg R a) = a) -> rneg R (r0 R) = r0 R ->
  forall (Y : aarray G R) (FY : farray G R) (ax : nat) (c h : list (C G) -> bool) subs ext,
  wf_array G R Y = true ->
  f_value G R FY = a_signmap G R c Y ->
  isub G (nth ax (indices G R Y) (dflt_index G)) = Some (subs, ext) ->
  (forall K, In K (sectors G R Y) -> c K = h (skipn (S ax) K)) ->
  exists Y' FY',
    a_unfuse G R Y ax = Some Y' /\ f_unfuse G R FY ax = Some FY' /\
    wf_array G R Y' = true /\ foddpos G R FY' = foddpos G R FY /\
    indices G R Y' = replace_with_seq (indices G R Y) ax subs /\
    f_value G R FY' =
    a_signmap G R (fun K => xorb (h (skipn (ax + length subs) K))
                                 (if idual G (nth ax (indices G R Y) (dflt_index G))
                                  then gsw G (map (idual G) subs) (skipn ax K) else false)) Y'.
Proof. exact f_unfuse_value. Qed.

(* the chain: PRE = the indices before the fused block (pos of them), FIX g = the
   index group g was fused into, gs = the groups still to be unfused *)
Theorem C05_fermi_chain :
  forall (G : Symmetry) (R : Ring), GroupLaws G ->
  (forall a : RT R, rneg R (rneg R a) = a) -> rneg R (r0 R) = r0 R ->
  forall (ixs : list (index G)) (pos : nat) (PRE : list (index G)) (FIX : list nat -> index G),
  length PRE = pos ->
  forall (gs : list (list nat)) (Y : aarray G R) (FY : farray G R) (c h : list (C G) -> bool),
  (forall g, In g gs -> g <> [] /\ (is_singlet g = false ->
      exists ext, isub G (FIX g) = Some (map (fun ax => nth ax ixs (dflt_index G)) g, ext) /\
                  idual G (FIX g) = idual G (nth (hd 0 g) ixs (dflt_index G)))) ->
  wf_array G R Y = true ->
  f_value G R FY = a_signmap G R c Y ->
  (forall K, In K (sectors G R Y) -> c K = h (skipn (pos + length gs) K)) ->
  firstn (pos + length gs) (indices G R Y) = PRE ++ map FIX gs ->
  match unfuse_groups G R Y pos gs, f_unfuse_groups G R FY pos gs with
  | Some Yf, Some FYf =>
      wf_array G R Yf = true /\ foddpos G R FYf = foddpos G R FY /\
      f_value G R FYf =
      a_signmap G R (fun K => xorb (Hs G (map (fun g => map (fun ax => idual G (nth ax ixs (dflt_index G))) g) gs)
                                       (skipn pos K))
                                   (h (skipn (pos + length (concat gs)) K))) Yf
  | None, None => True
  | _, _ => False
  end.
Proof. exact chain. Qed.

Print Assumptions C05_fermi_unfuse_fuse_groups.
Print Assumptions C05_fermi_unfuse_fuse_wf.
Print Assumptions C05_fermi_unfuse_groups_is_fold.
Print Assumptions C05_fermi_unfuse_fuse_groups_ZRing.
Print Assumptions C05_fermi_unfuse_fuse_groups_GRing.
Print Assumptions C05_fermi_unfuse_fuse_single_group.
Print Assumptions C05_fermi_fuse_single_axis_group.
Print Assumptions C05_fermi_unfuse_sign.
Print Assumptions C05_fermi_fuse_sign.
Print Assumptions C05_fermi_groups_are_windows.
Print Assumptions C05_fermi_unfuse_commutes_with_signs.
Print Assumptions C05_fermi_unfuse_value.
Print Assumptions C05_fermi_chain.
