(* Props/C20.v — property C20: element type and precision are preserved.
   Statements only; proofs live in Proofs/DtypeProofs.v.  The dtype table of
   the numpy kernels (Model/Dtype.v part 1) is modelled, not verified.

   A register is (declared tag, blocks); `ok r` = every block carries the
   declared tag, which is the dtype dense numpy gives for the same computation
   (same tag; real counterpart for singular values, eigenvalues, norm, abs;
   numpy promotion for binary operations).

   PARTIAL: the unrestricted statement `C20_full` is FALSE of the faithful
   model (C20_full_refuted, C20_insert_fuse_discards_imag_refuted).  What is
   proved carries two side conditions, computed by `all_safe`:
     (s1) `+` (missing="outer") is applied to operands of the SAME declared dtype —
          with different dtypes the one-sided blocks keep their own dtype, the array
          becomes mixed, and insert-fuse then casts into the first block's dtype;
     (s2) to_dense / fill_missing_blocks are applied to an array with at least
          one stored block — otherwise the example "array" is the float 0.0. *)
From SV Require Import Base.Prelude Model.Dtype Proofs.DtypeProofs.

Definition C20_full : Prop :=
  forall p rs rs' ev, Forall ok rs -> run p rs = Some (rs', ev) -> Forall ok rs' /\ Lossless ev.

(* every finite sequence of modelled operations (induction on the program) *)
Theorem C20_programs_homog_partial : forall p rs rs' ev,
  Forall ok rs -> all_safe p rs = true -> run p rs = Some (rs', ev) -> Forall ok rs'.
Proof. exact programs_homog. Qed.

(* every slice assignment / concatenation performed along the way has equal
   source and target tags: nothing is cast complex -> real or 64 -> 32 *)
Theorem C20_no_lossy_cast_partial : forall p rs rs' ev,
  Forall ok rs -> all_safe p rs = true -> run p rs = Some (rs', ev) ->
  Forall (fun e => lossless e = true /\ discards_imag e = false /\ narrows e = false) ev.
Proof. exact programs_no_lossy_cast. Qed.

(* the zero-fill sites, for every plan (= every sparsity pattern / grouping) *)
Theorem C20_zero_fill_sites : forall d x,
  Homog d x ->
  (forall plan, Homog d (fst (fuse_insert plan x)) /\ Lossless (snd (fuse_insert plan x))) /\
  (forall plan, Homog d (fst (fuse_concat plan x)) /\ Lossless (snd (fuse_concat plan x))) /\
  (x <> [] -> forall t, fst (to_dense t x) = d /\ Lossless (snd (to_dense t x))) /\
  (x <> [] -> forall valid, Homog d (fill_missing valid x)).
Proof. exact zero_fill_sites. Qed.

Theorem C20_contraction : forall dx dy a b,
  Homog dx a -> Homog dy b ->
  (forall plan c, tdot_blockwise plan a b = Some c -> Homog (promote dx dy) c) /\
  (forall ka kb pa pb pc unf c ev, tdot_fused ka kb pa pb pc unf a b = Some (c, ev) ->
                                   Homog (promote dx dy) c /\ Lossless ev).
Proof. exact contraction_homog. Qed.

(* singular values, eigenvalues, norm, abs: the real dtype of the same precision *)
Theorem C20_real_parts : forall d x,
  Homog d x ->
  (forall sk, Homog (real_of d) (svd_s sk x)) /\ (forall wk, Homog (real_of d) (eigh_w wk x)) /\
  (forall s, norm x = Some s -> s = SNp (real_of d)) /\
  (forall keys, Homog (real_of d) (map_blocks UAbs keys x)).
Proof. exact real_parts. Qed.

Theorem C20_svd_truncated : forall d ab keep skeys vkeys x,
  Homog d x ->
  Homog d (fst (fst (svd_trunc ab keep skeys vkeys x))) /\
  Homog (real_of d) (snd (fst (svd_trunc ab keep skeys vkeys x))) /\
  Homog d (snd (svd_trunc ab keep skeys vkeys x)).
Proof. exact svd_trunc_homog. Qed.

Theorem C20_weak_scalars : forall d s,
  is_double (weak d s) = is_double d /\ (s <> PyComplex -> weak d s = d).
Proof. exact weak_scalars_keep_precision. Qed.

(* one step, any instruction *)
Theorem C20_step : forall i rs rs' ev,
  Forall ok rs -> safe i rs = true -> step i rs = Some (rs', ev) -> Forall ok rs' /\ Lossless ev.
Proof. exact step_ok. Qed.

(* ---- where the full statement fails (faithful model; both replayed on /repo) *)
Theorem C20_full_refuted : ~ C20_full.
Proof. exact full_statement_refuted. Qed.
(* finding F13: (y.abs() + x).fuse((0, 1), mode="insert") on complex64 data *)
Theorem C20_insert_fuse_discards_imag_refuted :
  exists p rs rs' ev, Forall ok rs /\ run p rs = Some (rs', ev) /\ existsb discards_imag ev = true.
Proof. exact imag_discard_refuted. Qed.
(* an array without stored blocks densifies to float64 (no data, nothing to preserve) *)
Theorem C20_to_dense_empty_is_float64 : forall t, fst (to_dense t []) = F64.
Proof. exact to_dense_empty. Qed.

Print Assumptions C20_programs_homog_partial.
Print Assumptions C20_no_lossy_cast_partial.
Print Assumptions C20_zero_fill_sites.
Print Assumptions C20_contraction.
Print Assumptions C20_real_parts.
Print Assumptions C20_svd_truncated.
Print Assumptions C20_weak_scalars.
Print Assumptions C20_step.
Print Assumptions C20_full_refuted.
Print Assumptions C20_insert_fuse_discards_imag_refuted.
Print Assumptions C20_to_dense_empty_is_float64.
