(* Props/C06b.v — property C06, continuation: the fused contraction strategy
   computes the same result as the blockwise one up to additional all-zero
   blocks, and all modes of tensordot agree.  Statements only; proofs live in
   Proofs/FusedSem.v, Proofs/FusedSemGen.v (one or more contracted axes) and
   Proofs/FusedSemOuter.v (no contracted axis), on top of Proofs/FuseGroups.v for
   C05, Proofs/Tdot.v for C02, Proofs/FusedProofs.v for the alignment and
   Proofs/WfProofs.v for C01.

   Full record equality of the two results is FALSE in general: with two or more
   free legs on both sides the fused route stores additional all-zero blocks
   (FusedSemGen.ExC06b.ex22_values: 4 blocks against 2, aarray_eqb = false).
   What holds, for every symmetry with GroupLaws / OrderLaws, every ring with
   SumLaws, all ranks and tables, valid operands a b whose contracted legs match
   (same chargemap, opposite direction), distinct in-range contracted axes aa / ab
   of ANY number (none, one, several), free legs la / rb of ANY number of axes:

     C06_fused_eq_blockwise_full_proved  (= the Definition
       C06_fused_eq_blockwise_full of Props/C06.v, now a theorem): equal charge;
       EQUAL INDEX TABLES (after the alignment every charge of a free leg occurs in
       a stored sector that has a partner, so the pruning of the blockwise result
       drops nothing and both results carry the free legs of the aligned operands);
       and sem (fused) cs = sem (blockwise) cs for EVERY coordinate list cs (in
       range: the value theorem; a sector stored by only one route holds an
       all-zero block; a sector stored by both holds equal tensors).
     C06_all_modes_agree_full_proved  (= C06_all_modes_agree_full): auto / fused /
       blockwise of a_tensordot2 return results with equal charge, equal index
       tables and equal sem everywhere.
     C06_fused_eq_blockwise / C06_all_modes_agree: the same, spelled out.

   Ingredients, each a theorem: (i) alignment preserves wf_array
   (C06_alignment_preserves_wf_full, now proved); (ii)
   C06_fused_coordinate_sum_split: a sum over the coordinates of one fused index =
   the sum over all (sub-sector, sub-offsets) tuples of the fused legs, tuples no
   stored sector has counting zero; (iii) C06_pruned_unfuse_sem: unfusing a leg
   whose table is a fused index with unused charges dropped reads the fused
   coordinate; (iv) the coordinate semantics of fuse_core (Props/C05b.v,
   C05_fuse_core_sem).

   C03_tensordot_element_full is NOT discharged here: it is stated for
   Fermi.f_tensordot over Array.tdot_fused (a_unfuse_all) with blocks_ok operands;
   the theorems here are for Fused.tdot_fused2 (the repaired strategy) with
   wf_array operands. *)
From SV Require Import Base.Prelude Base.Sym Base.Tensor Model.Sectors Model.Array Model.Wf Model.Fused
  Model.SymInst Proofs.SymLaws Proofs.Tdot Proofs.OrderProofs Proofs.FuseProofs Proofs.FuseGroups
  Proofs.FusedProofs Proofs.FusedSem Proofs.FusedSemGen Proofs.FusedSemOuter Props.C06.
Local Open Scope nat_scope.

Theorem C06_alignment_preserves_wf_proved : C06_alignment_preserves_wf_full.
Proof. exact alignment_preserves_wf. Qed.

Theorem C06_fused_coordinate_sum_split :
  forall (G : Symmetry) (R : Ring), GroupLaws G -> OrderLaws G -> SumLaws R ->
  forall (x : aarray G R) (groups : list (list nat)),
  wf_array G R x = true ->
  Forall (fun g => g <> []) groups -> NoDup (concat groups) ->
  Forall (fun ax => ax < length (indices G R x)) (concat groups) ->
  forall g, In g (slots (length (indices G R x)) groups) -> is_singlet g = false ->
  forall (Phi : coord G -> RT R) (Psi : list (C G) -> list nat -> RT R),
  (forall s' u, In s' (sectors G R x) -> inb (map (sz G R x s') g) u = true ->
     Phi (group_charge G (indices G R x) s' g,
          fst (slot_range G (indices G R x) (sectors G R x) s' g) + offset (map (sz G R x s') g) u) =
     Psi (group_subsector G s' g) u) ->
  (forall ss u, In ss (product (map (icharges G) (subs_of G (indices G R x) g))) ->
     In u (all_idx (block_shape G (subs_of G (indices G R x) g) ss)) ->
     (forall s', In s' (sectors G R x) -> group_subsector G s' g <> ss) -> Psi ss u = r0 R) ->
  rsum R (map Phi (index_coords G (fused_index G (indices G R x) (sectors G R x) g))) =
  rsum R (map (fun ss => rsum R (map (Psi ss) (all_idx (block_shape G (subs_of G (indices G R x) g) ss))))
              (product (map (icharges G) (subs_of G (indices G R x) g)))).
Proof. exact fused_sum_split. Qed.

Theorem C06_pruned_unfuse_sem :
  forall (G : Symmetry) (R : Ring), GroupLaws G -> OrderLaws G ->
  forall (x : aarray G R) (groups : list (list nat)),
  wf_array G R x = true ->
  Forall (fun g => g <> []) groups -> NoDup (concat groups) ->
  Forall (fun ax => ax < length (indices G R x)) (concat groups) ->
  forall g, In g (slots (length (indices G R x)) groups) -> is_singlet g = false ->
  forall (Y : aarray G R) (ax : nat) (dropped : list (C G)) (IXr : list (index G)),
  nth ax (indices G R Y) (dflt_index G) =
    drop_charges G (fused_index G (indices G R x) (sectors G R x) g) dropped ->
  (forall ch, ~ In ch dropped ->
     size_of G (nth ax IXr (dflt_index G)) ch = size_of G (fused_index G (indices G R x) (sectors G R x) g) ch) ->
  NoDup (sectors G R Y) ->
  (forall K T, In (K, T) (blocks G R Y) -> length K = length IXr /\ tshape T = block_shape G IXr K) ->
  ax < length IXr ->
  (forall K T, In (K, T) (blocks G R Y) -> ~ In (nth ax K (ident G)) dropped) ->
  forall s' (cL csub cR : list (C G * nat)),
  In s' (sectors G R x) -> length cL = ax -> map fst csub = group_subsector G s' g ->
  coords_ok G (replace_with_seq IXr ax (subs_of G (indices G R x) g)) (cL ++ csub ++ cR) = true ->
  a_unfuse G R Y ax = Some (PY' G R x g Y ax dropped) /\
  sem G R (PY' G R x g Y ax dropped) (cL ++ csub ++ cR) =
  sem G R Y (cL ++ (group_charge G (indices G R x) s' g,
                    fst (slot_range G (indices G R x) (sectors G R x) s' g) +
                    offset (map (sz G R x s') g) (map snd csub)) :: cR).
Proof. exact pruned_unfuse_and_sem. Qed.

Theorem C06_fused_eq_blockwise_full_proved : C06_fused_eq_blockwise_full.
Proof. exact fused_eq_blockwise_full_stmt. Qed.

Theorem C06_all_modes_agree_full_proved : C06_all_modes_agree_full.
Proof. exact all_modes_agree_full_stmt. Qed.

Theorem C06_fused_eq_blockwise :
  forall (G : Symmetry) (R : Ring), GroupLaws G -> OrderLaws G -> SumLaws R ->
  forall (a b : aarray G R) (la aa ab rb : list nat),
  wf_array G R a = true -> wf_array G R b = true ->
  axes_ok (ndim G R a) aa = true -> axes_ok (ndim G R b) ab = true ->
  legs_match G R a b aa ab ->
  la = rest_axes (ndim G R a) aa -> rb = rest_axes (ndim G R b) ab ->
  let f := tdot_fused2 G R a b la aa ab rb in
  let w := tdot_blockwise G R a b la aa ab rb in
  charge G R f = charge G R w /\
  indices G R f = indices G R w /\
  forall cs, sem G R f cs = sem G R w cs.
Proof. exact fused_eq_blockwise_full_stmt. Qed.

Theorem C06_all_modes_agree :
  forall (G : Symmetry) (R : Ring), GroupLaws G -> OrderLaws G -> SumLaws R ->
  forall (a b : aarray G R) (axes : nat + (list Z * list Z)) (aa ab : list nat) (m1 m2 : tmode),
  parse_axes (ndim G R a) (ndim G R b) axes = Some (aa, ab) ->
  wf_array G R a = true -> wf_array G R b = true ->
  axes_ok (ndim G R a) aa = true -> axes_ok (ndim G R b) ab = true ->
  legs_match G R a b aa ab ->
  exists r1 r2, a_tensordot2 G R a b axes m1 = Some r1 /\ a_tensordot2 G R a b axes m2 = Some r2 /\
    charge G R r1 = charge G R r2 /\ indices G R r1 = indices G R r2 /\
    forall cs, sem G R r1 cs = sem G R r2 cs.
Proof. exact all_modes_agree_full_stmt. Qed.

Print Assumptions C06_alignment_preserves_wf_proved.
Print Assumptions C06_fused_coordinate_sum_split.
Print Assumptions C06_pruned_unfuse_sem.
Print Assumptions C06_fused_eq_blockwise.
Print Assumptions C06_all_modes_agree.
Print Assumptions C06_fused_eq_blockwise_full_proved.
Print Assumptions C06_all_modes_agree_full_proved.
