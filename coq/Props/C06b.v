(* Props/C06b.v — property C06, continuation: the fused contraction strategy
   computes the same VALUES as the blockwise one.  Statements only; proofs live in
   Proofs/FusedSem.v (on top of Proofs/FuseGroups.v for C05, Proofs/Tdot.v for C02,
   Proofs/FusedProofs.v for the alignment, Proofs/WfProofs.v for C01).

   Full record equality of the two results is FALSE in general: with two or more
   free legs on both sides the fused route stores additional all-zero blocks
   (FusedSem.ExC06b.records_differ_values_agree), and the blockwise result prunes
   the unused charges of its index tables while the unfused legs of the fused
   result are the unpruned legs of the aligned operands.  The statement is
   therefore: equal charge, and equal coordinate semantics `sem` at every
   coordinate list that is in range of the free legs of the aligned operands
   (a superset of the tables of both results).

   Ingredients (each a theorem below):
   (i)   alignment preserves wf_array (the `_full` statement of Props/C06.v);
   (ii)  the coordinates of one fused index split into (sub-sector, sub-offsets):
         a sum over the fused coordinates = the sum over all tuples of sub-charges
         and sub-offsets of the fused legs, tuples no stored sector has counting 0;
   (iii) unfusing a leg whose table is a fused index with unused charges dropped
         (what tdot_blockwise's pruning leaves): the unfused coordinates read the
         fused coordinate; a sub-sector no stored sector has gives no block;
   (iv)  C06_fused_eq_blockwise_partial: the value theorem when the contracted
         legs and the free legs of both operands are each >= 2 axes (every group
         is really fused: the case in which the extra zero blocks appear). *)
From SV Require Import Base.Prelude Base.Sym Base.Tensor Model.Sectors Model.Array Model.Wf Model.Fused
  Model.SymInst Proofs.SymLaws Proofs.Tdot Proofs.OrderProofs Proofs.FuseProofs Proofs.FuseGroups
  Proofs.FusedProofs Proofs.FusedSem Props.C06.
Local Open Scope nat_scope.

Theorem C06_alignment_preserves_wf_proved : C06_alignment_preserves_wf_full.
Proof. exact alignment_preserves_wf. Qed.

Theorem C06_fused_coordinate_sum_split :
  forall (G : Symmetry) (R : Ring), GroupLaws G -> OrderLaws G -> SumLaws R ->
  forall (x : aarray G R) (groups : list (list nat)),
  wf_array G R x = true ->
  Forall (fun g => g <> []) groups -> NoDup (concat groups) ->
  Forall (fun ax => ax < length (indices G R x)) (concat groups) ->
  forall g, In g (slots (length (indices G R x)) groups) -> is_singlet g = false ->
  forall (Phi : coord G -> RT R) (Psi : list (C G) -> list nat -> RT R),
  (forall s' u, In s' (sectors G R x) -> inb (map (sz G R x s') g) u = true ->
     Phi (group_charge G (indices G R x) s' g,
          fst (slot_range G (indices G R x) (sectors G R x) s' g) + offset (map (sz G R x s') g) u) =
     Psi (group_subsector G s' g) u) ->
  (forall ss u, In ss (product (map (icharges G) (subs_of G (indices G R x) g))) ->
     In u (all_idx (block_shape G (subs_of G (indices G R x) g) ss)) ->
     (forall s', In s' (sectors G R x) -> group_subsector G s' g <> ss) -> Psi ss u = r0 R) ->
  rsum R (map Phi (index_coords G (fused_index G (indices G R x) (sectors G R x) g))) =
  rsum R (map (fun ss => rsum R (map (Psi ss) (all_idx (block_shape G (subs_of G (indices G R x) g) ss))))
              (product (map (icharges G) (subs_of G (indices G R x) g)))).
Proof. exact fused_sum_split. Qed.

Theorem C06_pruned_unfuse_sem :
  forall (G : Symmetry) (R : Ring), GroupLaws G -> OrderLaws G ->
  forall (x : aarray G R) (groups : list (list nat)),
  wf_array G R x = true ->
  Forall (fun g => g <> []) groups -> NoDup (concat groups) ->
  Forall (fun ax => ax < length (indices G R x)) (concat groups) ->
  forall g, In g (slots (length (indices G R x)) groups) -> is_singlet g = false ->
  forall (Y : aarray G R) (ax : nat) (dropped : list (C G)),
  nth ax (indices G R Y) (dflt_index G) =
    drop_charges G (fused_index G (indices G R x) (sectors G R x) g) dropped ->
  NoDup (sectors G R Y) ->
  (forall K T, In (K, T) (blocks G R Y) ->
     length K = length (indices G R Y) /\ tshape T = block_shape G (indices G R Y) K) ->
  ax < length (indices G R Y) ->
  (forall K T, In (K, T) (blocks G R Y) -> ~ In (nth ax K (ident G)) dropped) ->
  forall s' (cL csub cR : list (C G * nat)),
  In s' (sectors G R x) -> length cL = ax -> map fst csub = group_subsector G s' g ->
  (In (map fst cL ++ group_charge G (indices G R x) s' g :: map fst cR) (sectors G R Y) ->
   coords_ok G (indices G R (PY' G R x g Y ax dropped)) (cL ++ csub ++ cR) = true) ->
  a_unfuse G R Y ax = Some (PY' G R x g Y ax dropped) /\
  sem G R (PY' G R x g Y ax dropped) (cL ++ csub ++ cR) =
  sem G R Y (cL ++ (group_charge G (indices G R x) s' g,
                    fst (slot_range G (indices G R x) (sectors G R x) s' g) +
                    offset (map (sz G R x s') g) (map snd csub)) :: cR).
Proof. exact pruned_unfuse_and_sem. Qed.

Theorem C06_fused_eq_blockwise_partial :
  forall (G : Symmetry) (R : Ring), GroupLaws G -> OrderLaws G -> SumLaws R ->
  forall (a b : aarray G R) (la aa ab rb : list nat),
  wf_array G R a = true -> wf_array G R b = true ->
  axes_ok (ndim G R a) aa = true -> axes_ok (ndim G R b) ab = true ->
  legs_match G R a b aa ab ->
  la = rest_axes (ndim G R a) aa -> rb = rest_axes (ndim G R b) ab ->
  2 <= length aa -> 2 <= length la -> 2 <= length rb ->
  let f := tdot_fused2 G R a b la aa ab rb in
  let w := tdot_blockwise G R a b la aa ab rb in
  let a1 := al_a G R a b aa ab in
  let b1 := al_b G R a b aa ab in
  charge G R f = charge G R w /\
  forall csl csr, coords_ok G (without_axes (indices G R a1) aa) csl = true ->
                  coords_ok G (without_axes (indices G R b1) ab) csr = true ->
                  sem G R f (csl ++ csr) = sem G R w (csl ++ csr).
Proof. exact fused_eq_blockwise_NS. Qed.

Print Assumptions C06_alignment_preserves_wf_proved.
Print Assumptions C06_fused_coordinate_sum_split.
Print Assumptions C06_pruned_unfuse_sem.
Print Assumptions C06_fused_eq_blockwise_partial.
