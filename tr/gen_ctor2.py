"""Regenerate coq/Gen/CtorAlgGen.v from the CURRENT source of the constructor
ALGORITHMS of $SYMMRAY_REPO/symmray/abelian_core.py (property C16):

  BlockIndex.__init__            (the sort of the chargemap)
  AbelianArray.__init__          (charge inference: which sector, which signs)
  AbelianArray.from_fill_fn      (loop over gen_valid_sectors, block shapes from size_of)
  AbelianArray.from_blocks       (index tables inferred from the block shapes)
  AbelianArray.from_dense        (label lists -> charge groups, slicing, which sectors are kept)
  AbelianArray.to_dense          (order in which the charges of an axis are laid out, zero fill)

Fail-closed: every statement / expression form outside the fragment below
raises `pygallina.Unsupported` (a broken translator tie of C16).

The methods are compiled statement by statement from their `ast` into Gallina
over the development's representation (Model/Array.v: `index`, `aarray`;
Base/Tensor.v: `tensor`); nothing about WHAT they compute is assumed:

  * a call returns, raises or (recursive closures) runs out of fuel: `cres`.
    `raise`, `next(iter(..))` on an empty container, `l[i]` out of range,
    `concatenate(())` are CRaise; a function in which nothing can raise is a
    plain Gallina function.  `d[k]` on a dict inside an expression is total
    (KeyError not modelled: default 0), numpy IndexError of a fancy index is
    not modelled;
  * `self.<name>` / `obj.<name>`: slots are the record projections, a
    `@property` or a method whose body is a single `return <expr>` is
    translated in place (class body first, then the base class BlockBase);
    `x.gen_valid_sectors()` is the already translated generator
    (Gen/SectorsGen.v), `get_class_symmetry(..)` is the symmetry G of the
    section (the class -> symmetry table is Gen/Ctor.v), `backend` /
    `get_any_array()` are opaque dispatch handles that may only be handed to
    `ar.do(.., like=)` / `ar.get_lib_fn`;
  * `__init__` methods: the stores `self._slot = e` are collected into the
    record (`_hashkey` must be None, `_symmetry` the symmetry);
  * tuples / lists are lists (a 2-tuple display is a pair), dicts are
    insertion-ordered association lists (Prelude.lookup / dset), Python ints
    are nat (only non-negative quantities occur: sizes, positions, ranks);
  * `sorted(..)` is the stable insertion sort by Python's `<` (`cltb G` on
    charges, lexicographic on (charge, size) items), `dict(pairs)` is the
    left fold of `dset`;
  * `for` is `fold_left` (`c_for` when the body can raise) over the tuple of
    the variables the body assigns or mutates that exist before the loop;
    comprehensions are `map` (`c_map` when the element can raise);
  * a recursive nested function is a `Fixpoint` on `fuel` (CFuel when used
    up) whose parameters are the enclosing variables it reads, the enclosing
    variables it mutates (returned as its result when it is a procedure) and
    its own parameters; a non-recursive nested function is inlined;
  * dense data movement stays abstract: `ar.shape` = tshape, zeros = tzeros,
    concatenate = tconcat, `ary[tuple(selector)]` with one list among full
    slices = `c_select`;
  * `if DEBUG:` blocks of `.check()` calls are assertions (skipped),
    `warnings.warn(..)` has no effect, a parameter that only steers
    diagnostics (`invalid_sectors`) is specialised to its default, `**kwargs`
    may only be forwarded (subclass arguments such as `oddpos`);
  * values are translated as VALUES: binding a second name to a mutable
    object, mutating a parameter, or mutating an object after it was stored
    in a container is refused.

Local names do not matter (binders are numbered in order of introduction);
parameters are named by position."""
import ast
import os
import re
import sys

sys.path.insert(0, os.path.dirname(os.path.abspath(__file__)))
from pygallina import Unsupported  # noqa: E402

NAT, BOOL, CH, TENSOR, INDEX, ARR = 'nat', 'bool', 'ch', 'tensor', 'index', 'arr'
SYM, CLS, OPAQUE, STR, NONE, SEL, SUBINFO, UNIT, SYMARG, IGN = ('sym', 'cls', 'opaque', 'str', 'none', 'sel', 'subinfo',
                                                                  'unit', 'symarg', 'ign')
NOVALUE = (SYM, CLS, OPAQUE, STR, SYMARG, IGN)


def seq(t):
    return ('seq', t)


def dct(k, v):
    return ('dict', k, v)


def pair(a, b):
    return ('pair', a, b)


def opt(t):
    return ('opt', t)


SECTOR = seq(CH)
BLOCKS = dct(SECTOR, TENSOR)
CHARGEMAP = dct(CH, NAT)


class TVar:
    count = 0

    def __init__(self):
        TVar.count += 1
        self.id = TVar.count
        self.ref = None


def res(t):
    while isinstance(t, TVar) and t.ref is not None:
        t = t.ref
    return t


def unify(a, b, what):
    a, b = res(a), res(b)
    if a is b:
        return a
    if isinstance(a, TVar):
        a.ref = b
        return b
    if isinstance(b, TVar):
        b.ref = a
        return a
    if isinstance(a, str) or isinstance(b, str):
        if a != b:
            raise Unsupported('%s: type %s where %s is expected' % (what, show(a), show(b)))
        return a
    if a[0] != b[0] or len(a) != len(b):
        raise Unsupported('%s: type %s where %s is expected' % (what, show(a), show(b)))
    if a[0] in ('fn', 'closure', 'libfn'):
        if a != b:
            raise Unsupported('%s: function types differ' % what)
        return a
    for x, y in zip(a[1:], b[1:]):
        unify(x, y, what)
    return a


def show(t):
    t = res(t)
    if isinstance(t, TVar):
        return '?%d' % t.id
    if isinstance(t, str):
        return t
    return '(' + ' '.join([t[0]] + [show(x) for x in t[1:] if not isinstance(x, (ast.AST, list, dict))]) + ')'


def ty_str(t):
    t = res(t)
    if isinstance(t, TVar):
        raise Unsupported('the type of an empty container literal is never fixed by a use')
    if t == NAT:
        return 'nat'
    if t == BOOL:
        return 'bool'
    if t == CH:
        return '(C G)'
    if t == TENSOR:
        return '(tensor R)'
    if t == INDEX:
        return '(index G)'
    if t == ARR:
        return '(aarray G R)'
    if t == SEL:
        return '(option (list nat))'
    if t == SUBINFO:
        return '(option (list (index G) * list (C G * list (list (C G) * nat))))'
    if t == UNIT:
        return 'unit'
    if isinstance(t, str):
        raise Unsupported('no Gallina type for %s' % t)
    if t[0] == 'seq':
        return '(list %s)' % ty_str(t[1])
    if t[0] == 'dict':
        return '(list (%s * %s))' % (ty_str(t[1]), ty_str(t[2]))
    if t[0] == 'pair':
        return '(%s * %s)' % (ty_str(t[1]), ty_str(t[2]))
    if t[0] == 'opt':
        return '(option %s)' % ty_str(t[1])
    if t[0] == 'fn':
        return '(' + ' -> '.join([ty_str(x) for x in t[1]] + [ty_str(t[2])]) + ')'
    raise Unsupported('no Gallina type for %s' % show(t))


def eqb(t):
    t = res(t)
    if t == NAT:
        return 'Nat.eqb'
    if t == BOOL:
        return 'Bool.eqb'
    if t == CH:
        return '(ceqb G)'
    if isinstance(t, tuple) and t[0] == 'seq':
        return '(list_eqb %s)' % eqb(t[1])
    if isinstance(t, tuple) and t[0] == 'pair':
        return '(pair_eqb %s %s)' % (eqb(t[1]), eqb(t[2]))
    raise Unsupported('equality on %s' % show(t))


def ltb(t):
    """Python's `<` on the values `sorted` compares"""
    t = res(t)
    if t == NAT:
        return 'Nat.ltb'
    if t == CH:
        return '(cltb G)'
    if isinstance(t, tuple) and t[0] == 'pair':
        return '(c_pair_ltb %s %s %s)' % (ltb(t[1]), eqb(t[1]), ltb(t[2]))
    raise Unsupported('`<` on %s' % show(t))


NOSTATIC = object()


class Val:
    def __init__(self, text, ty, mut=False, static=NOSTATIC, par=False, frozen=False, info=None):
        self.text, self.ty, self.mut, self.static, self.par, self.frozen, self.info = text, ty, mut, static, par, frozen, info

    def with_(self, **kw):
        v = Val(self.text, self.ty, self.mut, self.static, self.par, self.frozen, self.info)
        for k, x in kw.items():
            setattr(v, k, x)
        return v


class Comp:
    """a translated statement list: kind 'p' (a plain value) or 'm' (a `cres`)"""

    def __init__(self, kind, text):
        self.kind, self.text = kind, text


def lift(c):
    return c.text if c.kind == 'm' else '(COk %s)' % c.text


ATOM = re.compile(r"^[A-Za-z_][A-Za-z0-9_']*$")
NOOP = '@@NOOP@@'


def dfs(node):
    """nodes in source order"""
    yield node
    for c in ast.iter_child_nodes(node):
        for x in dfs(c):
            yield x


HEADER = '''(* GENERATED by tr/gen_ctor2.py from symmray/abelian_core.py (BlockIndex.__init__, AbelianArray.__init__, from_fill_fn, from_blocks, from_dense, to_dense) - do not edit. *)
From SV Require Import Base.Prelude Base.Sym Base.Tensor Model.Sectors Model.Array Gen.SectorsGen.
Local Open Scope nat_scope.

(* ---- fixed run-time library of the translation (Python semantics of the constructs used) ---- *)
(* what a Python call does: returns, raises, or the translation of a recursive closure ran out of fuel *)
Inductive cres (A : Type) : Type :=
| COk (a : A)
| CRaise
| CFuel.
Arguments COk {A} a.
Arguments CRaise {A}.
Arguments CFuel {A}.

Definition cbind {A B} (r : cres A) (f : A -> cres B) : cres B :=
  match r with
  | COk a => f a
  | CRaise => CRaise
  | CFuel => CFuel
  end.

(* a translated generator run to completion (Gen/SectorsGen.v): None = it raised *)
Definition c_of_opt {A} (o : option A) : cres A :=
  match o with Some a => COk a | None => CRaise end.
(* next(iter(l)): StopIteration on an empty container *)
Definition c_first {A} (l : list A) : cres A :=
  match l with x :: _ => COk x | [] => CRaise end.
(* l[i], i >= 0: IndexError *)
Definition c_nth {A} (l : list A) (i : nat) : cres A := c_of_opt (nth_error l i).
(* l[i] = x, i >= 0: IndexError *)
Fixpoint c_set_nth {A} (l : list A) (i : nat) (x : A) : cres (list A) :=
  match l, i with
  | [], _ => CRaise
  | _ :: l', O => COk (x :: l')
  | y :: l', S i' => cbind (c_set_nth l' i' x) (fun r => COk (y :: r))
  end.
(* for x in l: s = body s x *)
Fixpoint c_for {A S} (l : list A) (s : S) (body : S -> A -> cres S) : cres S :=
  match l with
  | [] => COk s
  | x :: l' => cbind (body s x) (fun s' => c_for l' s' body)
  end.
(* [f x for x in l], left to right *)
Fixpoint c_map {A B} (f : A -> cres B) (l : list A) : cres (list B) :=
  match l with
  | [] => COk []
  | x :: l' => cbind (f x) (fun y => cbind (c_map f l') (fun r => COk (y :: r)))
  end.
(* sorted(l): stable, by Python's `<` *)
Definition c_sorted {A} (lt : A -> A -> bool) (l : list A) : list A := isort lt l.
(* `<` on 2-tuples *)
Definition c_pair_ltb {A B} (lta eqa : A -> A -> bool) (ltb : B -> B -> bool) (x y : A * B) : bool :=
  lta (fst x) (fst y) || (eqa (fst x) (fst y) && ltb (snd x) (snd y)).
(* dict(pairs) / {k: v for ...}: later items replace earlier ones in place *)
Definition c_dict_of {K V} (e : K -> K -> bool) (l : list (K * V)) : list (K * V) :=
  fold_left (fun d p => dset e (fst p) (snd p) d) l [].
(* d[k] inside an expression (KeyError not modelled: dflt) *)
Definition c_dget {K V} (e : K -> K -> bool) (dflt : V) (d : list (K * V)) (k : K) : V :=
  match lookup e k d with Some v => v | None => dflt end.
(* d.setdefault(k, []).append(v) *)
Definition c_setdefault_append {K V} (e : K -> K -> bool) (k : K) (v : V) (d : list (K * list V)) : list (K * list V) :=
  match lookup e k d with
  | Some l => dset e k (l ++ [v]) d
  | None => d ++ [(k, [v])]
  end.

Section CtorAlgLib.
  Context (R : Ring).
  (* t[tuple(sel)], one entry per axis: None = slice(None), Some l = the positions l (numpy IndexError not modelled) *)
  Definition c_select (t : tensor R) (sel : list (option (list nat))) : tensor R :=
    let pos := map (fun p => match fst p with Some l => l | None => seq 0 (snd p) end) (List.combine sel (tshape t)) in
    build R (map (@length nat) pos) (fun i => get R t (map (fun p => nth (snd p) (fst p) 0) (List.combine pos i))).
  (* numpy.concatenate(ts, axis): ValueError on an empty sequence *)
  Definition c_concat (ts : list (tensor R)) (axis : nat) : cres (tensor R) :=
    match ts with [] => CRaise | _ :: _ => COk (tconcat R ts axis) end.
End CtorAlgLib.

(* ---- the translated methods ---- *)
Section CtorAlgGen.
  Context (G : Symmetry) (R : Ring).

'''

FOOTER = 'End CtorAlgGen.\n'


# ------------------------------------------------------------------ the classes of the package
class ClassInfo:
    def __init__(self, cls):
        self.cls = cls
        self.defs = {}
        for n in cls.body:
            if isinstance(n, ast.FunctionDef):
                if n.name in self.defs and not any(isinstance(d, ast.Attribute) and d.attr in ('setter', 'deleter')
                                                   for d in n.decorator_list):
                    raise Unsupported('%s.%s is defined twice' % (cls.name, n.name))
                self.defs.setdefault(n.name, n)
            elif isinstance(n, ast.AsyncFunctionDef):
                raise Unsupported('async def in %s' % cls.name)


def decorators(d):
    out = []
    for x in d.decorator_list:
        if isinstance(x, ast.Name):
            out.append(x.id)
        else:
            raise Unsupported('decorator %s of %s' % (ast.unparse(x)[:40], d.name))
    return out


def body_without_doc(d):
    return [s for s in d.body
            if not (isinstance(s, ast.Expr) and isinstance(s.value, ast.Constant) and isinstance(s.value.value, str))]


ARR_SLOTS = {'_indices': ('(indices G R %s)', seq(INDEX)), '_charge': ('(charge G R %s)', CH),
             '_blocks': ('(blocks G R %s)', BLOCKS), '_symmetry': None}
IDX_SLOTS = {'_chargemap': ('(chargemap G %s)', CHARGEMAP), '_dual': ('(idual G %s)', BOOL),
             '_subinfo': ('(isub G %s)', SUBINFO), '_hashkey': None}
SLOTS = {'AbelianArray': ARR_SLOTS, 'BlockIndex': IDX_SLOTS}
OBJ_CLASS = {ARR: 'AbelianArray', INDEX: 'BlockIndex'}
OPAQUE_MEMBERS = ('backend', 'get_any_array')
BUILTINS = ('len', 'range', 'enumerate', 'zip', 'tuple', 'list', 'dict', 'sorted', 'next', 'iter', 'int', 'bool',
            'isinstance', 'slice')


class Tr:
    def __init__(self, classes, notes):
        self.classes = classes          # name -> [ClassInfo in lookup order]
        self.notes = notes
        self.counter = 0
        self.binds = []
        self.depth = 0
        self.fixpoints = []
        self.fn = None                  # the function being translated
        self.loops = []                 # names existing outside each enclosing loop
        self.sigs = {}                  # class -> (coq name, monadic?, [(pyname, type, default ast)])
        self.used = {'AbelianArray': set(), 'BlockIndex': set()}
        self.closure_info = {}
        self.tyrefs = []

    # ------------------------------------------------------------ small helpers
    def fresh(self):
        self.counter += 1
        return 'v%d' % self.counter

    def tyref(self, t):
        self.tyrefs.append(t)
        return '⟦%d⟧' % (len(self.tyrefs) - 1)

    def finalize(self, text):
        return re.sub('⟦(\\d+)⟧', lambda m: ty_str(self.tyrefs[int(m.group(1))]), text)

    def nil(self, elem_ty):
        return '(@nil %s)' % self.tyref(elem_ty)

    def push_bind(self, mtext, ty, mut=False):
        v = self.fresh()
        self.binds.append((v, mtext))
        return Val(v, ty, mut=mut)

    def ev(self, n, env):
        saved, self.binds = self.binds, []
        try:
            v = self.expr(n, env)
        finally:
            b, self.binds = self.binds, saved
        return b, v

    def ev_pure(self, n, env, what):
        b, v = self.ev(n, env)
        if b:
            raise Unsupported('%s: an operation that can raise in a position that is evaluated conditionally' % what)
        return v

    @staticmethod
    def wrap(binds, comp):
        if not binds:
            return comp
        text = lift(comp)
        for var, m in reversed(binds):
            if text == '(COk %s)' % var:
                text = m
            else:
                text = '(cbind %s (fun %s =>\n    %s))' % (m, var, text)
        return Comp('m', text)

    def member(self, cname, name):
        for info in self.classes[cname]:
            if name in info.defs:
                return info.defs[name]
        return None

    def as_bool(self, v, what='condition'):
        t = res(v.ty)
        if t == BOOL:
            return v.text
        if isinstance(t, tuple) and t[0] in ('seq', 'dict'):
            return '(negb (is_nil %s))' % v.text
        if t == NAT:
            return '(negb (Nat.eqb %s 0))' % v.text
        raise Unsupported('truth value of %s (%s)' % (show(t), what))

    def default_of(self, t):
        t = res(t)
        if t == NAT:
            return '0'
        raise Unsupported('d[k] inside an expression for values of type %s' % show(t))

    def keys_of(self, v):
        """the sequence a container is iterated as"""
        t = res(v.ty)
        if isinstance(t, tuple) and t[0] == 'dict':
            return Val('(map fst %s)' % v.text, seq(t[1]))
        if isinstance(t, tuple) and t[0] == 'seq':
            return v
        raise Unsupported('iteration over %s' % show(t))

    # ------------------------------------------------------------ expressions
    def expr(self, n, env):
        m = getattr(self, 'e_' + type(n).__name__, None)
        if m is None:
            raise Unsupported('expression %s' % ast.dump(n)[:80])
        return m(n, env)

    def e_Constant(self, n, env):
        v = n.value
        if v is True:
            return Val('true', BOOL)
        if v is False:
            return Val('false', BOOL)
        if v is None:
            return Val('None', NONE, static=None)
        if isinstance(v, int) and v >= 0:
            return Val('%d' % v, NAT)
        if isinstance(v, str):
            return Val('', STR, static=v)
        if isinstance(v, float):
            return Val('', OPAQUE)
        raise Unsupported('constant %r' % (v,))

    def e_JoinedStr(self, n, env):
        return Val('', OPAQUE)

    def e_Name(self, n, env):
        if n.id in env:
            return env[n.id]
        raise Unsupported('free name %s' % n.id)

    def display(self, elts, env, mut):
        parts, et = [], TVar()
        for e in elts:
            if isinstance(e, ast.Starred):
                x = self.keys_of(self.expr(e.value, env))
                unify(x.ty, seq(et), 'starred element')
                parts.append(('l', x.text))
            else:
                x = self.expr(e, env)
                unify(x.ty, et, 'sequence display')
                parts.append(('e', x.text))
        out, run = [], []
        for k, x in parts:
            if k == 'e':
                run.append(x)
            else:
                if run:
                    out.append('[' + '; '.join(run) + ']')
                    run = []
                out.append(x)
        if run:
            out.append('[' + '; '.join(run) + ']')
        if not out:
            return Val(self.nil(et), seq(et), mut=mut)
        if len(out) == 1:
            return Val(out[0], seq(et), mut=mut)
        return Val('(' + ' ++ '.join(out) + ')', seq(et), mut=mut)

    def e_Tuple(self, n, env):
        if len(n.elts) == 2 and not any(isinstance(e, ast.Starred) for e in n.elts):
            a, b = self.expr(n.elts[0], env), self.expr(n.elts[1], env)
            return Val('(%s, %s)' % (a.text, b.text), pair(a.ty, b.ty))
        if len(n.elts) <= 1 or any(isinstance(e, ast.Starred) for e in n.elts):
            return self.display(n.elts, env, False)
        raise Unsupported('tuple display of %d elements' % len(n.elts))

    def e_List(self, n, env):
        return self.display(n.elts, env, True)

    def e_Dict(self, n, env):
        if n.keys:
            raise Unsupported('non-empty dict display')
        k, v = TVar(), TVar()
        return Val(self.nil(pair(k, v)), dct(k, v), mut=True)

    def e_BinOp(self, n, env):
        if isinstance(n.op, ast.Mult) and isinstance(n.left, ast.List) and len(n.left.elts) == 1 \
                and not isinstance(n.left.elts[0], ast.Starred):
            x = self.expr(n.left.elts[0], env)
            k = self.expr(n.right, env)
            unify(k.ty, NAT, '[x] * n')
            return Val('(repeat %s %s)' % (x.text, k.text), seq(x.ty), mut=True)
        a, b = self.expr(n.left, env), self.expr(n.right, env)
        if isinstance(n.op, ast.Add):
            ta = res(a.ty)
            if ta == NAT:
                unify(b.ty, NAT, '+')
                return Val('(%s + %s)' % (a.text, b.text), NAT)
            if isinstance(ta, tuple) and ta[0] == 'seq':
                unify(a.ty, b.ty, '+')
                return Val('(%s ++ %s)' % (a.text, b.text), a.ty, mut=True)
        raise Unsupported('binary operation %s' % ast.unparse(n)[:60])

    def e_UnaryOp(self, n, env):
        if isinstance(n.op, ast.Not):
            x = self.expr(n.operand, env)
            if x.static is not NOSTATIC and res(x.ty) == BOOL and x.static in (True, False):
                return Val('true' if not x.static else 'false', BOOL, static=not x.static)
            return Val('(negb %s)' % self.as_bool(x), BOOL)
        raise Unsupported('unary operation %s' % ast.unparse(n)[:40])

    def e_BoolOp(self, n, env):
        parts = [self.as_bool(self.expr(n.values[0], env))]
        for v in n.values[1:]:
            parts.append(self.as_bool(self.ev_pure(v, env, 'and/or')))
        return Val('(' + (' && ' if isinstance(n.op, ast.And) else ' || ').join(parts) + ')', BOOL)

    def e_IfExp(self, n, env):
        c = self.as_bool(self.expr(n.test, env))
        a, b = self.ev_pure(n.body, env, 'conditional expression'), self.ev_pure(n.orelse, env, 'conditional expression')
        unify(a.ty, b.ty, 'conditional expression')
        return Val('(if %s then %s else %s)' % (c, a.text, b.text), a.ty)

    def e_Compare(self, n, env):
        if len(n.ops) != 1:
            raise Unsupported('chained comparison')
        op, rhs = n.ops[0], n.comparators[0]
        a = self.expr(n.left, env)
        if isinstance(op, (ast.Is, ast.IsNot)):
            if not (isinstance(rhs, ast.Constant) and rhs.value is None):
                raise Unsupported('`is` with something else than None')
            ta = res(a.ty)
            if ta == NONE:
                return Val('true' if isinstance(op, ast.Is) else 'false', BOOL, static=isinstance(op, ast.Is))
            if not (isinstance(ta, tuple) and ta[0] == 'opt') and ta != SUBINFO:
                raise Unsupported('`is None` on a value of type %s' % show(ta))
            r = '(is_none %s)' % a.text
            return Val(r if isinstance(op, ast.Is) else '(negb %s)' % r, BOOL)
        b = self.expr(rhs, env)
        if res(a.ty) == OPAQUE or res(b.ty) == OPAQUE:
            return Val('', OPAQUE)
        if isinstance(op, (ast.Eq, ast.NotEq)):
            if res(a.ty) == STR and res(b.ty) == STR:
                if a.static is NOSTATIC or b.static is NOSTATIC:
                    raise Unsupported('comparison of strings that are not constants')
                r = (a.static == b.static) == isinstance(op, ast.Eq)
                return Val('true' if r else 'false', BOOL, static=r)
            unify(a.ty, b.ty, 'comparison')
            r = '(%s %s %s)' % (eqb(a.ty), a.text, b.text)
            return Val(r if isinstance(op, ast.Eq) else '(negb %s)' % r, BOOL)
        if isinstance(op, (ast.Lt, ast.LtE, ast.Gt, ast.GtE)):
            unify(a.ty, NAT, 'ordering comparison')
            unify(b.ty, NAT, 'ordering comparison')
            x, y = (a.text, b.text) if isinstance(op, (ast.Lt, ast.LtE)) else (b.text, a.text)
            f = 'Nat.ltb' if isinstance(op, (ast.Lt, ast.Gt)) else 'Nat.leb'
            return Val('(%s %s %s)' % (f, x, y), BOOL)
        if isinstance(op, (ast.In, ast.NotIn)):
            c = self.keys_of(b)
            unify(c.ty, seq(a.ty), '`in`')
            r = '(mem %s %s %s)' % (eqb(a.ty), a.text, c.text)
            return Val(r if isinstance(op, ast.In) else '(negb %s)' % r, BOOL)
        raise Unsupported('comparison %s' % ast.unparse(n)[:60])

    # ---- attributes, properties, methods
    def slot_read(self, cname, obj, slot):
        if obj.info == 'init':
            key = 'self.' + slot
            if key not in obj.env:
                raise Unsupported('%s is read before __init__ assigns it' % key)
            return obj.env[key]
        tmpl = SLOTS[cname].get(slot)
        if tmpl is None:
            if cname == 'AbelianArray' and slot == '_symmetry':
                return Val('G', SYM)
            raise Unsupported('slot %s of %s' % (slot, cname))
        return Val(tmpl[0] % obj.text, tmpl[1])

    def obj_class(self, v):
        t = res(v.ty)
        if t in OBJ_CLASS:
            return OBJ_CLASS[t]
        if isinstance(t, tuple) and t[0] == 'init':
            return t[1]
        return None

    def inline(self, cname, d, obj, args, what):
        """the value of a member whose body is a single `return <expr>`"""
        a = d.args
        names = [x.arg for x in a.args]
        if not names or names[0] != 'self' or a.vararg or a.kwarg or a.kwonlyargs or a.posonlyargs or a.defaults:
            raise Unsupported('signature of %s' % what)
        if len(names) - 1 != len(args):
            raise Unsupported('%s called with %d arguments' % (what, len(args)))
        body = body_without_doc(d)
        if len(body) != 1 or not isinstance(body[0], ast.Return) or body[0].value is None:
            raise Unsupported('%s is not a single `return <expr>`' % what)
        self.depth += 1
        if self.depth > 8:
            raise Unsupported('member chain too deep at %s' % what)
        try:
            env = {'self': obj}
            for nm, v in zip(names[1:], args):
                env[nm] = v
            return self.expr(body[0].value, env)
        finally:
            self.depth -= 1

    def e_Attribute(self, n, env):
        if isinstance(n.value, ast.Name) and n.value.id not in env:
            raise Unsupported('attribute %s' % ast.unparse(n)[:60])
        obj = self.expr(n.value, env)
        if obj.info == 'init' and not hasattr(obj, 'env'):
            obj = obj.with_(env=env)
        cname = self.obj_class(obj)
        if cname is None:
            raise Unsupported('attribute %s of a value of type %s' % (n.attr, show(obj.ty)))
        if n.attr in SLOTS[cname]:
            return self.slot_read(cname, obj, n.attr)
        if n.attr in OPAQUE_MEMBERS:
            return Val('', OPAQUE)
        d = self.member(cname, n.attr)
        if d is None or decorators(d) != ['property']:
            raise Unsupported('%s.%s is not a slot or a plain @property' % (cname, n.attr))
        self.used[cname].add(n.attr)
        return self.inline(cname, d, obj, [], 'property %s.%s' % (cname, n.attr))

    def e_Subscript(self, n, env):
        x = self.expr(n.value, env)
        t = res(x.ty)
        if t == TENSOR:
            sl = n.slice
            if isinstance(sl, ast.Call) and isinstance(sl.func, ast.Name) and sl.func.id == 'tuple' and len(sl.args) == 1 \
                    and not sl.keywords:
                s = self.expr(sl.args[0], env)
                unify(s.ty, seq(SEL), 'fancy index')
                self.notes.append('ary[tuple(selector)]: c_select (one entry per axis; numpy IndexError not modelled)')
                return Val('(c_select R %s %s)' % (x.text, s.text), TENSOR)
            raise Unsupported('array subscript %s' % ast.unparse(n)[:60])
        if isinstance(t, tuple) and t[0] == 'pair' and isinstance(n.slice, ast.Constant) and n.slice.value in (0, 1):
            return Val(('(fst %s)' if n.slice.value == 0 else '(snd %s)') % x.text, t[1 + n.slice.value])
        if isinstance(n.slice, ast.Slice):
            raise Unsupported('slice %s' % ast.unparse(n)[:60])
        k = self.expr(n.slice, env)
        if isinstance(t, tuple) and t[0] == 'seq':
            unify(k.ty, NAT, 'list index')
            return self.push_bind('(c_nth %s %s)' % (x.text, k.text), t[1], mut=True)
        if isinstance(t, tuple) and t[0] == 'dict':
            unify(k.ty, t[1], 'dict key')
            self.notes.append('d[k] inside an expression: KeyError is not modelled (c_dget returns 0)')
            return Val('(c_dget %s %s %s %s)' % (eqb(t[1]), self.default_of(t[2]), x.text, k.text), t[2])
        raise Unsupported('subscript of a value of type %s' % show(t))

    # ---- comprehensions
    def pattern(self, tgt, ty, env):
        env2 = dict(env)
        if isinstance(tgt, ast.Name):
            if tgt.id == '_':
                return '_', env2
            v = self.fresh()
            env2[tgt.id] = Val(v, ty, mut=True)
            return v, env2
        if isinstance(tgt, (ast.Tuple, ast.List)) and len(tgt.elts) == 2:
            a, b = TVar(), TVar()
            unify(ty, pair(a, b), 'unpacking')
            p0, env2 = self.pattern(tgt.elts[0], a, env2)
            p1, env2 = self.pattern(tgt.elts[1], b, env2)
            return "'(%s, %s)" % (p0.lstrip("'"), p1.lstrip("'")), env2
        raise Unsupported('unpacking target %s' % ast.unparse(tgt)[:40])

    def comp_iter(self, gens, env):
        if len(gens) != 1:
            raise Unsupported('comprehension with several `for`')
        g = gens[0]
        if g.is_async:
            raise Unsupported('async comprehension')
        it = self.keys_of(self.expr(g.iter, env))
        et = TVar()
        unify(it.ty, seq(et), 'comprehension')
        pat, env2 = self.pattern(g.target, et, env)
        txt = it.text
        for c in g.ifs:
            cx = self.as_bool(self.ev_pure(c, env2, 'comprehension filter'))
            txt = '(filter (fun %s => %s) %s)' % (pat, cx, txt)
        return pat, env2, txt

    def comp_seq(self, n, env, mut):
        pat, env2, it = self.comp_iter(n.generators, env)
        b, v = self.ev(n.elt, env2)
        if not b:
            return Val('(map (fun %s => %s) %s)' % (pat, v.text, it), seq(v.ty), mut=mut)
        body = self.wrap(b, Comp('p', v.text))
        return self.push_bind('(c_map (fun %s => %s) %s)' % (pat, body.text, it), seq(v.ty), mut=mut)

    def e_GeneratorExp(self, n, env):
        return self.comp_seq(n, env, False)

    def e_ListComp(self, n, env):
        return self.comp_seq(n, env, True)

    def e_DictComp(self, n, env):
        pat, env2, it = self.comp_iter(n.generators, env)
        k = self.ev_pure(n.key, env2, 'dict comprehension')
        v = self.ev_pure(n.value, env2, 'dict comprehension')
        return Val('(c_dict_of %s (map (fun %s => (%s, %s)) %s))' % (eqb(k.ty), pat, k.text, v.text, it), dct(k.ty, v.ty),
                   mut=True)

    # ---- calls
    def plain_args(self, n, k=None, what=None):
        if n.keywords or any(isinstance(a, ast.Starred) for a in n.args) or (k is not None and len(n.args) != k):
            raise Unsupported('call %s' % (what or ast.unparse(n)[:60]))
        return n.args

    def charges_arg(self, n, env, what):
        if n.keywords:
            raise Unsupported('keyword in %s' % what)
        if not n.args:
            return '[]'
        v = self.display(n.args, env, False)
        unify(v.ty, SECTOR, what)
        return v.text

    def bind_args(self, what, sig, n, env, ignore_kwargs=True):
        """arguments of a call matched to a parameter list [(name, type, default ast)] -> {name: Val}"""
        got = {}
        if any(isinstance(a, ast.Starred) for a in n.args):
            raise Unsupported('starred argument in %s' % what)
        if len(n.args) > len(sig):
            raise Unsupported('too many arguments in %s' % what)
        for (nm, _, _), a in zip(sig, n.args):
            got[nm] = self.expr(a, env)
        for kw in n.keywords:
            if kw.arg is None:
                if not (isinstance(kw.value, ast.Name) and res(env.get(kw.value.id, Val('', NAT)).ty) == IGN):
                    raise Unsupported('** argument in %s' % what)
                self.notes.append('%s: **kwargs is forwarded (arguments of a subclass constructor such as oddpos; not part of '
                                  'the abelian core)' % what)
                continue
            if kw.arg in got or kw.arg not in [s[0] for s in sig]:
                raise Unsupported('keyword %s in %s' % (kw.arg, what))
            got[kw.arg] = self.expr(kw.value, env)
        for nm, _, dflt in sig:
            if nm not in got:
                if dflt is None:
                    raise Unsupported('%s: argument %s is missing' % (what, nm))
                got[nm] = self.expr(dflt, {})
        return got

    def coerce(self, v, ty, what):
        ty, tv = res(ty), res(v.ty)
        if isinstance(ty, tuple) and ty[0] == 'opt':
            if tv == NONE:
                return 'None'
            if not (isinstance(tv, tuple) and tv[0] == 'opt'):
                unify(v.ty, ty[1], what)
                return '(Some %s)' % v.text
        if ty == SUBINFO and tv == NONE:
            return 'None'
        if isinstance(ty, tuple) and ty[0] == 'dict' and isinstance(tv, tuple) and tv[0] == 'seq':
            # an empty tuple handed to dict(..)
            a, b = TVar(), TVar()
            unify(v.ty, seq(pair(a, b)), what)
            unify(dct(a, b), ty, what)
            return '(c_dict_of %s %s)' % (eqb(a), v.text)
        unify(v.ty, ty, what)
        return v.text

    def ctor_call(self, cname, n, env):
        if cname not in self.sigs:
            raise Unsupported('%s(..) before its __init__ is translated' % cname)
        coqname, monadic, sig = self.sigs[cname]
        what = '%s(..)' % cname
        got = self.bind_args(what, sig, n, env)
        args = []
        for nm, ty, _ in sig:
            if ty in (SYMARG,):
                if res(got[nm].ty) not in (SYM, SYMARG, NONE):
                    raise Unsupported('%s: the symmetry argument is %s' % (what, show(got[nm].ty)))
                continue
            args.append(self.coerce(got[nm], ty, '%s argument %s' % (what, nm)))
        text = '(%s %s)' % (coqname, ' '.join(args))
        rt = ARR if cname == 'AbelianArray' else INDEX
        if monadic:
            return self.push_bind(text, rt, mut=True)
        return Val(text, rt, mut=True)

    def closure_call(self, cl, n, env):
        fdef = cl.info
        sig = []
        a = fdef.args
        if a.vararg or a.kwarg or a.kwonlyargs or a.posonlyargs:
            raise Unsupported('signature of the nested function %s' % fdef.name)
        nd = len(a.args) - len(a.defaults)
        for i, x in enumerate(a.args):
            sig.append((x.arg, None, a.defaults[i - nd] if i >= nd else None))
        got = self.bind_args('%s(..)' % fdef.name, sig, n, env)
        recursive = any(isinstance(x, ast.Name) and x.id == fdef.name for x in dfs(fdef) if x is not fdef)
        if not recursive:
            body = body_without_doc(fdef)
            if len(body) != 1 or not isinstance(body[0], ast.Return) or body[0].value is None:
                raise Unsupported('the nested function %s is neither recursive nor a single `return <expr>`' % fdef.name)
            env2 = dict(env)
            for nm, _, _ in sig:
                env2[nm] = got[nm]
            return self.expr(body[0].value, env2)
        return self.rec_call(cl, fdef, sig, got, env)

    def e_Call(self, n, env):
        f = n.func
        if isinstance(f, ast.Name):
            name = f.id
            if name in env:
                v = env[name]
                t = res(v.ty)
                if t == CLS:
                    return self.ctor_call('AbelianArray', n, env)
                if isinstance(t, tuple) and t[0] == 'closure':
                    return self.closure_call(v, n, env)
                if isinstance(t, tuple) and t[0] == 'libfn' and t[1] == 'concatenate':
                    got = self.bind_args('concatenate(..)', [('arrays', None, None), ('axis', None, None)], n, env)
                    unify(got['arrays'].ty, seq(TENSOR), 'concatenate')
                    unify(got['axis'].ty, NAT, 'concatenate axis')
                    return self.push_bind('(c_concat R %s %s)' % (got['arrays'].text, got['axis'].text), TENSOR)
                if isinstance(t, tuple) and t[0] == 'fn':
                    args = [self.expr(a, env) for a in self.plain_args(n, len(t[1]))]
                    for a, ta in zip(args, t[1]):
                        unify(a.ty, ta, 'argument of %s' % name)
                    return Val('(%s %s)' % (v.text, ' '.join(a.text for a in args)), t[2])
                raise Unsupported('call of the local %s' % name)
            if name == 'BlockIndex':
                return self.ctor_call('BlockIndex', n, env)
            if name in BUILTINS:
                return self.builtin(name, n, env)
            raise Unsupported('call %s' % ast.unparse(n)[:60])
        if isinstance(f, ast.Attribute):
            if isinstance(f.value, ast.Name) and f.value.id == 'ar' and 'ar' not in env:
                return self.autoray(f.attr, n, env)
            if f.attr == 'get_class_symmetry':
                o = self.expr(f.value, env)
                if res(o.ty) != CLS and self.obj_class(o) != 'AbelianArray':
                    raise Unsupported('get_class_symmetry of %s' % show(o.ty))
                self.plain_args(n, 1)
                self.notes.append('get_class_symmetry(symmetry) is the symmetry G of the section (class -> symmetry: Gen/Ctor.v)')
                return Val('G', SYM)
            x = self.expr(f.value, env)
            t = res(x.ty)
            if t == SYM:
                if f.attr == 'combine':
                    return Val('(combine G %s)' % self.charges_arg(n, env, 'combine'), CH)
                if f.attr == 'sign':
                    args = list(n.args)
                    if len(args) == 1 and len(n.keywords) == 1 and n.keywords[0].arg == 'dual':
                        args.append(n.keywords[0].value)
                    elif n.keywords:
                        raise Unsupported('keyword in sign')
                    if len(args) != 2 or any(isinstance(a, ast.Starred) for a in args):
                        raise Unsupported('sign needs the charge and the dual flag explicitly (%s)' % ast.unparse(n)[:60])
                    c, d = self.expr(args[0], env), self.expr(args[1], env)
                    unify(c.ty, CH, 'sign')
                    unify(d.ty, BOOL, 'sign')
                    return Val('(sign G %s %s)' % (c.text, d.text), CH)
                raise Unsupported('symmetry method %s' % f.attr)
            if isinstance(t, tuple) and t[0] == 'dict':
                if f.attr == 'items':
                    self.plain_args(n, 0)
                    return Val(x.text, seq(pair(t[1], t[2])))
                if f.attr == 'keys':
                    self.plain_args(n, 0)
                    return Val('(map fst %s)' % x.text, seq(t[1]))
                if f.attr == 'values':
                    self.plain_args(n, 0)
                    return Val('(map snd %s)' % x.text, seq(t[2]))
                if f.attr == 'copy':
                    self.plain_args(n, 0)
                    return Val(x.text, x.ty, mut=True)
                if f.attr == 'get':
                    a = self.plain_args(n, 2)
                    if not (isinstance(a[1], ast.Constant) and a[1].value is None):
                        raise Unsupported('dict.get with a default other than None')
                    k = self.expr(a[0], env)
                    unify(k.ty, t[1], 'dict.get')
                    return Val('(lookup %s %s %s)' % (eqb(t[1]), k.text, x.text), opt(t[2]))
                raise Unsupported('dict method %s' % f.attr)
            if isinstance(t, tuple) and t[0] == 'seq' and f.attr == 'copy':
                self.plain_args(n, 0)
                return Val(x.text, x.ty, mut=True)
            cname = self.obj_class(x)
            if cname is not None:
                if f.attr in OPAQUE_MEMBERS:
                    return Val('', OPAQUE)
                if cname == 'AbelianArray' and f.attr == 'gen_valid_sectors':
                    self.plain_args(n, 0)
                    if x.info == 'init':
                        raise Unsupported('gen_valid_sectors inside __init__')
                    self.used[cname].add(f.attr)
                    self.notes.append('x.gen_valid_sectors() is Gen/SectorsGen.gen_valid_sectors_gen on ((charges in table order, dual) '
                                      'per index, charge); None there = it raised')
                    return self.push_bind('(c_of_opt (gen_valid_sectors_gen G (map (fun ix => (icharges G ix, idual G ix)) '
                                          '(indices G R %s)) (charge G R %s)))' % (x.text, x.text), seq(SECTOR))
                d = self.member(cname, f.attr)
                if d is None or decorators(d):
                    raise Unsupported('%s.%s is not a plain method' % (cname, f.attr))
                if n.keywords or any(isinstance(a, ast.Starred) for a in n.args):
                    raise Unsupported('call %s' % ast.unparse(n)[:60])
                self.used[cname].add(f.attr)
                if x.info == 'init' and not hasattr(x, 'env'):
                    x = x.with_(env=env)
                return self.inline(cname, d, x, [self.expr(a, env) for a in n.args], 'method %s.%s' % (cname, f.attr))
        raise Unsupported('call %s' % ast.unparse(n)[:60])

    def autoray(self, attr, n, env):
        if attr == 'shape':
            x = self.expr(self.plain_args(n, 1)[0], env)
            unify(x.ty, TENSOR, 'ar.shape')
            return Val('(tshape %s)' % x.text, seq(NAT))
        if attr == 'ndim':
            x = self.expr(self.plain_args(n, 1)[0], env)
            unify(x.ty, TENSOR, 'ar.ndim')
            return Val('(length (tshape %s))' % x.text, NAT)
        if attr == 'get_lib_fn':
            a = self.plain_args(n, 2)
            if res(self.expr(a[0], env).ty) != OPAQUE or not (isinstance(a[1], ast.Constant) and a[1].value == 'concatenate'):
                raise Unsupported('call %s' % ast.unparse(n)[:60])
            return Val('', ('libfn', 'concatenate'))
        if attr == 'do' and n.args and isinstance(n.args[0], ast.Constant):
            fn = n.args[0].value
            if fn == 'zeros':
                if len(n.args) != 2 or len(n.keywords) != 1 or n.keywords[0].arg != 'like' \
                        or res(self.expr(n.keywords[0].value, env).ty) != OPAQUE:
                    raise Unsupported('call %s' % ast.unparse(n)[:60])
                sh = self.expr(n.args[1], env)
                unify(sh.ty, seq(NAT), 'zeros shape')
                return Val('(tzeros R %s)' % sh.text, TENSOR)
            if fn in ('any', 'abs'):
                for a in n.args[1:]:
                    self.expr(a, env)
                if n.keywords:
                    raise Unsupported('call %s' % ast.unparse(n)[:60])
                return Val('', OPAQUE)
        raise Unsupported('call %s' % ast.unparse(n)[:60])

    def builtin(self, name, n, env):
        if name == 'next':
            a = self.plain_args(n, 1)[0]
            if not (isinstance(a, ast.Call) and isinstance(a.func, ast.Name) and a.func.id == 'iter' and 'iter' not in env):
                raise Unsupported('next of something else than iter(..)')
            x = self.keys_of(self.expr(self.plain_args(a, 1)[0], env))
            return self.push_bind('(c_first %s)' % x.text, res(x.ty)[1])
        if name == 'iter':
            raise Unsupported('iter(..) outside next(iter(..))')
        if name == 'len':
            x = self.expr(self.plain_args(n, 1)[0], env)
            t = res(x.ty)
            if not (isinstance(t, tuple) and t[0] in ('seq', 'dict')):
                raise Unsupported('len of %s' % show(t))
            return Val('(length %s)' % x.text, NAT)
        if name == 'range':
            x = self.expr(self.plain_args(n, 1)[0], env)
            unify(x.ty, NAT, 'range')
            return Val('(seq 0 %s)' % x.text, seq(NAT))
        if name == 'enumerate':
            x = self.keys_of(self.expr(self.plain_args(n, 1)[0], env))
            return Val('(enumerate %s)' % x.text, seq(pair(NAT, res(x.ty)[1])))
        if name == 'zip':
            a = self.plain_args(n, 2)
            x, y = self.keys_of(self.expr(a[0], env)), self.keys_of(self.expr(a[1], env))
            return Val('(List.combine %s %s)' % (x.text, y.text), seq(pair(res(x.ty)[1], res(y.ty)[1])))
        if name in ('tuple', 'list'):
            if not n.args and not n.keywords:
                return Val(self.nil(TVar()), seq(TVar()), mut=(name == 'list'))
            x = self.keys_of(self.expr(self.plain_args(n, 1)[0], env))
            return Val(x.text, x.ty, mut=(name == 'list'))
        if name == 'dict':
            x = self.expr(self.plain_args(n, 1)[0], env)
            t = res(x.ty)
            if isinstance(t, tuple) and t[0] == 'dict':
                return Val(x.text, x.ty, mut=True)
            a, b = TVar(), TVar()
            unify(x.ty, seq(pair(a, b)), 'dict(..)')
            return Val('(c_dict_of %s %s)' % (eqb(a), x.text), dct(a, b), mut=True)
        if name == 'sorted':
            x = self.keys_of(self.expr(self.plain_args(n, 1)[0], env))
            return Val('(c_sorted %s %s)' % (ltb(res(x.ty)[1]), x.text), x.ty, mut=True)
        if name == 'int':
            x = self.expr(self.plain_args(n, 1)[0], env)
            unify(x.ty, NAT, 'int(..)')
            return x
        if name == 'bool':
            x = self.expr(self.plain_args(n, 1)[0], env)
            unify(x.ty, BOOL, 'bool(..)')
            return x
        if name == 'isinstance':
            a = self.plain_args(n, 2)
            x = self.expr(a[0], env)
            t = res(x.ty)
            if not (isinstance(a[1], ast.Name) and a[1].id in ('dict', 'list', 'tuple')):
                raise Unsupported('isinstance against %s' % ast.unparse(a[1])[:40])
            if not (isinstance(t, tuple) and t[0] in ('dict', 'seq')):
                raise Unsupported('isinstance of a value of type %s' % show(t))
            r = (t[0] == 'dict') == (a[1].id == 'dict')
            self.notes.append('%s is resolved by the static type of its argument (%s)' % (ast.unparse(n), t[0]))
            return Val('true' if r else 'false', BOOL, static=r)
        if name == 'slice':
            a = self.plain_args(n, 1)[0]
            if not (isinstance(a, ast.Constant) and a.value is None):
                raise Unsupported('slice(..) other than slice(None)')
            return Val('(@None (list nat))', SEL)
        raise Unsupported('builtin %s' % name)

    # ------------------------------------------------------------ statements
    def assigned(self, stmts, env):
        """names (re)bound or mutated by a statement list, in order of first occurrence"""
        out = []

        def add(x):
            if x not in out:
                out.append(x)

        def base(t):
            while isinstance(t, ast.Subscript):
                t = t.value
            if isinstance(t, ast.Attribute):
                if isinstance(t.value, ast.Name) and t.value.id == 'self' and self.fn['kind'] == 'ctor':
                    return 'self.' + t.attr
                t = t.value
            if isinstance(t, ast.Name):
                return t.id
            raise Unsupported('assignment target %s' % ast.unparse(t)[:40])

        def target(t):
            if isinstance(t, (ast.Tuple, ast.List)):
                for e in t.elts:
                    target(e)
            elif isinstance(t, ast.Starred):
                raise Unsupported('starred assignment target')
            else:
                add(base(t))

        for s in stmts:
            if isinstance(s, ast.Assign):
                for t in s.targets:
                    target(t)
            elif isinstance(s, (ast.AugAssign, ast.AnnAssign)):
                raise Unsupported('statement %s' % type(s).__name__)
            elif isinstance(s, ast.Expr) and isinstance(s.value, ast.Call):
                f = s.value.func
                if isinstance(f, ast.Name) and f.id in env and isinstance(res(env[f.id].ty), tuple) \
                        and res(env[f.id].ty)[0] == 'closure':
                    for m in self.closure_writes(env[f.id].info):
                        add(m)
                elif isinstance(f, ast.Attribute) and f.attr == 'append':
                    r = f.value
                    if isinstance(r, ast.Call) and isinstance(r.func, ast.Attribute) and r.func.attr == 'setdefault':
                        r = r.func.value
                    add(base(r))
            elif isinstance(s, ast.If):
                for x in self.assigned(s.body, env) + self.assigned(s.orelse, env):
                    add(x)
            elif isinstance(s, ast.For):
                for x in self.assigned(s.body, env):
                    add(x)
            elif isinstance(s, ast.FunctionDef):
                add(s.name)
            elif isinstance(s, (ast.Return, ast.Raise, ast.Pass, ast.Expr)):
                pass
            else:
                raise Unsupported('statement %s' % type(s).__name__)
        return out

    @staticmethod
    def locals_of(fdef):
        """names local to a nested function: its parameters and every name it binds"""
        out = [a.arg for a in fdef.args.args]
        for x in dfs(fdef):
            if isinstance(x, ast.Name) and isinstance(x.ctx, ast.Store) and x.id not in out:
                out.append(x.id)
            elif isinstance(x, (ast.Global, ast.Nonlocal)):
                raise Unsupported('global / nonlocal in %s' % fdef.name)
            elif isinstance(x, (ast.FunctionDef, ast.Lambda, ast.ClassDef)) and x is not fdef:
                raise Unsupported('%s inside the nested function %s' % (type(x).__name__, fdef.name))
        return out

    def closure_writes(self, fdef):
        """enclosing variables a nested function mutates (d[k] = v, l.append(v))"""
        loc = self.locals_of(fdef)
        out = []
        for x in dfs(fdef):
            t = None
            if isinstance(x, ast.Assign):
                for tg in x.targets:
                    if isinstance(tg, ast.Subscript):
                        t = tg
                        while isinstance(t, ast.Subscript):
                            t = t.value
                    elif isinstance(tg, ast.Attribute):
                        raise Unsupported('attribute store in the nested function %s' % fdef.name)
            elif isinstance(x, ast.Call) and isinstance(x.func, ast.Attribute) \
                    and x.func.attr in ('append', 'setdefault', 'extend', 'pop', 'update', 'clear', 'insert', 'remove', 'add',
                                        'discard', 'sort', 'reverse', 'popitem'):
                t = x.func.value
                while isinstance(t, (ast.Subscript, ast.Call)):
                    t = t.value if isinstance(t, ast.Subscript) else (t.func.value if isinstance(t.func, ast.Attribute) else None)
            if t is not None:
                if not isinstance(t, ast.Name):
                    raise Unsupported('mutation of %s in the nested function %s' % (ast.unparse(t)[:40], fdef.name))
                if t.id not in loc and t.id not in out:
                    out.append(t.id)
        return out

    def state_tuple(self, names, env):
        for nm in names:
            if nm not in env:
                raise Unsupported('%s may be unbound here' % nm)
        if not names:
            return 'tt'
        return ('(' + ', '.join(env[nm].text for nm in names) + ')') if len(names) > 1 else env[names[0]].text

    def state_pattern(self, names, types, env, mut=True):
        env2 = dict(env)
        if not names:
            return '_', env2
        vs = []
        for nm, t in zip(names, types):
            v = self.fresh()
            old = env.get(nm)
            env2[nm] = Val(v, t, mut=(old.mut if old is not None else mut), par=(old.par if old is not None else False),
                           frozen=(old.frozen if old is not None else False))
            vs.append(v)
        return ("'(" + ', '.join(vs) + ')') if len(vs) > 1 else vs[0], env2

    def check_mutable(self, name, env, what):
        v = env.get(name)
        if v is None:
            raise Unsupported('%s: %s is not bound' % (what, name))
        if v.par:
            raise Unsupported('%s mutates the parameter %s (visible to the caller)' % (what, name))
        if v.frozen:
            raise Unsupported('%s mutates %s after it was stored in a container' % (what, name))
        return v

    def escape(self, n, env):
        """the object bound to a name is stored in a container: it must not be mutated afterwards"""
        if isinstance(n, ast.Name) and n.id in env and env[n.id].mut:
            for outer in self.loops:
                if n.id in outer:
                    raise Unsupported('%s is stored in a container inside a loop and exists outside it' % n.id)
            env[n.id] = env[n.id].with_(frozen=True)

    def static_test(self, t, env):
        """True / False when the test is decided at translation time, 'debug' for DEBUG, None otherwise"""
        if isinstance(t, ast.Name) and t.id == 'DEBUG' and 'DEBUG' not in env:
            return 'debug'
        if isinstance(t, ast.UnaryOp) and isinstance(t.op, ast.Not):
            r = self.static_test(t.operand, env)
            return (not r) if r in (True, False) else None
        if isinstance(t, ast.Call) and isinstance(t.func, ast.Name) and t.func.id == 'isinstance' and 'isinstance' not in env:
            return self.ev_pure(t, env, 'isinstance').static
        if isinstance(t, ast.Compare) and len(t.ops) == 1:
            for side in (t.left, t.comparators[0]):
                if isinstance(side, ast.Constant) and isinstance(side.value, str):
                    v = self.ev_pure(t, env, 'string comparison')
                    return v.static if v.static in (True, False) else None
        return None

    def is_noop(self, stmts, env):
        try:
            c = self.block(list(stmts), dict(env), lambda e: Comp('p', NOOP))
        except Unsupported:
            return False
        return c.text == NOOP

    @staticmethod
    def terminates(stmts):
        if not stmts:
            return False
        s = stmts[-1]
        if isinstance(s, (ast.Raise, ast.Return)):
            return True
        if isinstance(s, ast.If):
            return Tr.terminates(s.body) and Tr.terminates(s.orelse)
        return False

    def splitter(self, test, env):
        """-> (mk(a_text, b_text), env_then, env_else) for `if test:`"""
        neg = False
        t = test
        if isinstance(t, ast.UnaryOp) and isinstance(t.op, ast.Not):
            pass
        if isinstance(t, ast.Compare) and len(t.ops) == 1 and isinstance(t.ops[0], (ast.Is, ast.IsNot)) \
                and isinstance(t.left, ast.Name) and isinstance(t.comparators[0], ast.Constant) \
                and t.comparators[0].value is None and t.left.id in env:
            x = env[t.left.id]
            tx = res(x.ty)
            if isinstance(tx, tuple) and tx[0] == 'opt':
                neg = isinstance(t.ops[0], ast.IsNot)
                v = self.fresh()
                env_some = dict(env)
                env_some[t.left.id] = Val(v, tx[1], mut=x.mut, par=x.par)
                env_none = dict(env)

                def mk(a, b, x=x, v=v, neg=neg):
                    none_b, some_b = (b, a) if neg else (a, b)
                    return '(match %s with\n    | None => %s\n    | Some %s => %s\n    end)' % (x.text, none_b, v, some_b)
                return (mk, env_some, env_none) if neg else (mk, env_none, env_some)
        b, c = self.ev(test, env)
        if b:
            raise Unsupported('a condition that can raise: %s' % ast.unparse(test)[:60])
        if res(c.ty) == OPAQUE:
            return None, env, env
        ctext = self.as_bool(c)
        return (lambda a, b_: '(if %s then %s else %s)' % (ctext, a, b_)), dict(env), dict(env)

    def block(self, stmts, env, k):
        if not stmts:
            return k(env)
        s, rest = stmts[0], list(stmts[1:])
        if isinstance(s, ast.Pass) or (isinstance(s, ast.Expr) and isinstance(s.value, ast.Constant)):
            return self.block(rest, env, k)
        if isinstance(s, ast.Raise):
            return Comp('m', 'CRaise')
        if isinstance(s, ast.Return):
            return self.do_return(s, env)
        if isinstance(s, ast.FunctionDef):
            if s.decorator_list:
                raise Unsupported('decorated nested function %s' % s.name)
            self.locals_of(s)
            env2 = dict(env)
            env2[s.name] = Val('', ('closure', s.name), info=s)
            return self.block(rest, env2, k)
        if isinstance(s, ast.Assign):
            return self.do_assign(s, rest, env, k)
        if isinstance(s, ast.Expr):
            return self.do_expr_stmt(s, rest, env, k)
        if isinstance(s, ast.If):
            return self.do_if(s, rest, env, k)
        if isinstance(s, ast.For):
            return self.do_for(s, rest, env, k)
        raise Unsupported('statement %s' % type(s).__name__)

    def do_return(self, s, env):
        fn = self.fn
        if fn['kind'] == 'procedure':
            if s.value is not None and not (isinstance(s.value, ast.Constant) and s.value.value is None):
                raise Unsupported('return with a value in a nested procedure')
            return fn['end'](env)
        if fn['kind'] == 'ctor':
            raise Unsupported('return inside __init__')
        if s.value is None:
            raise Unsupported('bare return')
        b, v = self.ev(s.value, env)
        unify(v.ty, fn['ret'], 'return value')
        return self.wrap(b, Comp('p', v.text))

    def bind_name(self, name, v, rest, env, k):
        env2 = dict(env)
        if res(v.ty) in NOVALUE or (isinstance(res(v.ty), tuple) and res(v.ty)[0] in ('closure', 'libfn')):
            env2[name] = v
            return self.block(rest, env2, k)
        if ATOM.match(v.text):
            env2[name] = v.with_(par=False, frozen=False)
            return self.block(rest, env2, k)
        x = self.fresh()
        env2[name] = Val(x, v.ty, mut=v.mut)
        inner = self.block(rest, env2, k)
        if inner.text == x:
            return Comp(inner.kind, v.text)
        return Comp(inner.kind, '(let %s := %s in\n    %s)' % (x, v.text, inner.text))

    def do_assign(self, s, rest, env, k):
        if len(s.targets) != 1:
            raise Unsupported('multi-target assignment')
        tgt = s.targets[0]
        if isinstance(tgt, ast.Name):
            if tgt.id in ('self', 'cls', 'ar', 'warnings', 'DEBUG', 'BlockIndex') + BUILTINS:
                raise Unsupported('%s is rebound' % tgt.id)
            for outer in self.loops[-1:]:
                pass
            if isinstance(s.value, (ast.GeneratorExp,)) or (isinstance(s.value, ast.Call) and isinstance(s.value.func, ast.Name)
                                                             and s.value.func.id in ('zip', 'enumerate', 'iter', 'range')
                                                             and s.value.func.id not in env):
                raise Unsupported('a one-shot iterator is bound to the name %s' % tgt.id)
            b, v = self.ev(s.value, env)
            if isinstance(s.value, ast.Name) and s.value.id != tgt.id and v.mut and res(v.ty) not in NOVALUE \
                    and not (isinstance(res(v.ty), tuple) and res(v.ty)[0] in ('closure', 'libfn')) and res(v.ty) not in (CH, NAT, BOOL, TENSOR):
                raise Unsupported('%s = %s binds a second name to a mutable object' % (tgt.id, s.value.id))
            return self.wrap(b, self.bind_name(tgt.id, v, rest, env, k))
        if isinstance(tgt, (ast.Tuple, ast.List)):
            b, v = self.ev(s.value, env)
            pat, env2 = self.pattern(tgt, v.ty, env)
            inner = self.block(rest, env2, k)
            return self.wrap(b, Comp(inner.kind, '(let %s := %s in\n    %s)' % (pat, v.text, inner.text)))
        if isinstance(tgt, ast.Attribute):
            if not (isinstance(tgt.value, ast.Name) and tgt.value.id == 'self' and self.fn['kind'] == 'ctor'):
                raise Unsupported('attribute store %s' % ast.unparse(tgt)[:40])
            cname = self.fn['class']
            if tgt.attr not in SLOTS[cname]:
                raise Unsupported('%s.%s is not a known slot' % (cname, tgt.attr))
            b, v = self.ev(s.value, env)
            want = SLOTS[cname][tgt.attr]
            if want is None:
                if tgt.attr == '_hashkey':
                    if res(v.ty) != NONE:
                        raise Unsupported('_hashkey is initialised with something else than None')
                elif res(v.ty) != SYM:
                    raise Unsupported('_symmetry is not the class symmetry')
            else:
                v = Val(self.coerce(v, want[1], 'self.%s' % tgt.attr), want[1], mut=True)
            return self.wrap(b, self.bind_name('self.' + tgt.attr, v, rest, env, k))
        if isinstance(tgt, ast.Subscript):
            return self.do_store(tgt, s.value, rest, env, k)
        raise Unsupported('assignment target %s' % ast.unparse(tgt)[:40])

    def store_into(self, cont, key_ast, val_text_fn, env):
        """container value after `cont[key] = value`; pushes binds where it can raise"""
        t = res(cont.ty)
        k = self.expr(key_ast, env)
        if isinstance(t, tuple) and t[0] == 'dict':
            unify(k.ty, t[1], 'dict key')
            return '(dset %s %s %s %s)' % (eqb(t[1]), k.text, val_text_fn(t[2]), cont.text)
        if isinstance(t, tuple) and t[0] == 'seq':
            unify(k.ty, NAT, 'list index')
            return self.push_bind('(c_set_nth %s %s %s)' % (cont.text, k.text, val_text_fn(t[1])), cont.ty).text
        raise Unsupported('item store into a value of type %s' % show(t))

    def do_store(self, tgt, value, rest, env, k):
        saved, self.binds = self.binds, []
        try:
            v = self.expr(value, env)

            def vtext(want, v=v):
                if res(want) == SEL and res(v.ty) != SEL:
                    unify(v.ty, seq(NAT), 'selector entry')
                    return '(Some %s)' % v.text
                unify(v.ty, want, 'stored value')
                return v.text
            env = dict(env)
            self.escape(value, env)
            base = tgt.value
            if isinstance(base, ast.Name):
                c = self.check_mutable(base.id, env, ast.unparse(tgt)[:40])
                new = self.store_into(c, tgt.slice, vtext, env)
                name, nv = base.id, Val(new, c.ty, mut=True)
            elif isinstance(base, ast.Subscript) and isinstance(base.value, ast.Name):
                c = self.check_mutable(base.value.id, env, ast.unparse(tgt)[:40])
                inner = self.expr(base, env)          # c[i]  (may raise: hoisted)
                new_inner = self.store_into(inner, tgt.slice, vtext, env)
                new = self.store_into(c, base.slice, lambda want: new_inner, env)
                name, nv = base.value.id, Val(new, c.ty, mut=True)
            elif isinstance(base, ast.Attribute) and isinstance(base.value, ast.Name) and base.value.id != 'self':
                o = self.check_mutable(base.value.id, env, ast.unparse(tgt)[:40])
                cname = self.obj_class(o)
                if cname != 'AbelianArray':
                    raise Unsupported('item store through %s' % ast.unparse(base)[:40])
                slot = base.attr
                if slot not in ARR_SLOTS:
                    d = self.member(cname, slot)
                    if d is None or decorators(d) != ['property']:
                        raise Unsupported('%s.%s is not a plain @property' % (cname, slot))
                    body = body_without_doc(d)
                    r = body[0].value if len(body) == 1 and isinstance(body[0], ast.Return) else None
                    if not (isinstance(r, ast.Attribute) and isinstance(r.value, ast.Name) and r.value.id == 'self'
                            and r.attr in ARR_SLOTS):
                        raise Unsupported('property %s.%s does not return a slot' % (cname, slot))
                    self.used[cname].add(slot)
                    slot = r.attr
                if slot != '_blocks':
                    raise Unsupported('item store into %s.%s' % (cname, slot))
                cur = self.slot_read(cname, o, slot)
                newb = self.store_into(cur, tgt.slice, vtext, env)
                name, nv = base.value.id, Val('(mkA G R (indices G R %s) (charge G R %s) %s)' % (o.text, o.text, newb), ARR, mut=True)
            else:
                raise Unsupported('assignment target %s' % ast.unparse(tgt)[:40])
        finally:
            b, self.binds = self.binds, saved
        return self.wrap(b, self.bind_name(name, nv, rest, env, k))

    def do_expr_stmt(self, s, rest, env, k):
        c = s.value
        if not isinstance(c, ast.Call):
            raise Unsupported('expression statement %s' % ast.unparse(s)[:60])
        f = c.func
        if isinstance(f, ast.Attribute) and isinstance(f.value, ast.Name) and f.value.id == 'warnings' and f.attr == 'warn' \
                and 'warnings' not in env:
            self.notes.append('warnings.warn(..) has no effect on the result')
            return self.block(rest, env, k)
        if isinstance(f, ast.Attribute) and f.attr == 'append' and len(c.args) == 1 and not c.keywords:
            r = f.value
            env = dict(env)
            if isinstance(r, ast.Name):
                cont = self.check_mutable(r.id, env, ast.unparse(c)[:40])
                b, v = self.ev(c.args[0], env)
                unify(cont.ty, seq(v.ty), 'append')
                self.escape(c.args[0], env)
                return self.wrap(b, self.bind_name(r.id, Val('(%s ++ [%s])' % (cont.text, v.text), cont.ty, mut=True), rest, env, k))
            if isinstance(r, ast.Call) and isinstance(r.func, ast.Attribute) and r.func.attr == 'setdefault' \
                    and isinstance(r.func.value, ast.Name) and len(r.args) == 2 and not r.keywords \
                    and isinstance(r.args[1], ast.List) and not r.args[1].elts:
                nm = r.func.value.id
                cont = self.check_mutable(nm, env, ast.unparse(c)[:40])
                b2, key = self.ev(r.args[0], env)
                b3, val = self.ev(c.args[0], env)
                kk = key.ty
                unify(cont.ty, dct(key.ty, seq(val.ty)), 'setdefault(k, []).append(v)')
                return self.wrap(b2 + b3, self.bind_name(nm, Val('(c_setdefault_append %s %s %s %s)' % (
                    eqb(kk), key.text, val.text, cont.text), cont.ty, mut=True), rest, env, k))
        if isinstance(f, ast.Name) and f.id in env and isinstance(res(env[f.id].ty), tuple) and res(env[f.id].ty)[0] == 'closure':
            writes = self.closure_writes(env[f.id].info)
            b, v = self.ev(c, env)
            if res(v.ty) != UNIT:
                raise Unsupported('the value of %s(..) is discarded' % f.id)
            env2 = dict(env)
            for nm, text in zip(writes, v.info or []):
                env2[nm] = Val(text, env[nm].ty, mut=True)
            return self.wrap(b, self.block(rest, env2, k))
        raise Unsupported('expression statement %s' % ast.unparse(s)[:60])

    def do_if(self, s, rest, env, k):
        st = self.static_test(s.test, env)
        if st == 'debug':
            for x in s.body:
                if not (isinstance(x, ast.Expr) and isinstance(x.value, ast.Call) and isinstance(x.value.func, ast.Attribute)
                        and x.value.func.attr == 'check' and not x.value.args and not x.value.keywords):
                    raise Unsupported('`if DEBUG:` with something else than .check() calls')
            if s.orelse:
                raise Unsupported('`if DEBUG:` with an else branch')
            self.notes.append('`if DEBUG:` blocks of .check() calls are assertions: skipped')
            return self.block(rest, env, k)
        if st is True:
            return self.block(list(s.body) + rest, env, k)
        if st is False:
            return self.block(list(s.orelse) + rest, env, k)
        mk, env_t, env_e = self.splitter(s.test, env)
        if mk is None:
            if self.is_noop(s.body, env) and self.is_noop(s.orelse, env):
                self.notes.append('a branch on an opaque array predicate whose both arms have no effect on the result is skipped: %s'
                                  % ast.unparse(s.test)[:60])
                return self.block(rest, env, k)
            raise Unsupported('a branch on %s that affects the result' % ast.unparse(s.test)[:60])

        def both(a, b):
            if a.kind == 'p' and b.kind == 'p':
                return Comp('p', mk(a.text, b.text))
            return Comp('m', mk(lift(a), lift(b)))
        body, orelse = list(s.body), list(s.orelse)
        if self.terminates(body):
            return both(self.block(body, env_t, k), self.block(orelse + rest, env_e, k))
        if self.terminates(orelse):
            return both(self.block(body + rest, env_t, k), self.block(orelse, env_e, k))
        if not rest:
            return both(self.block(body, env_t, k), self.block(orelse, env_e, k))
        # join: the variables the branches assign that are defined afterwards
        names = self.assigned(body, env) + [x for x in self.assigned(orelse, env) if x not in self.assigned(body, env)]
        got = {}

        def kb(e, got=got):
            got.setdefault('envs', []).append(e)
            return Comp('p', NOOP)
        c0, nfix = self.counter, len(self.fixpoints)
        self.block(body, env_t, kb)
        self.block(orelse, env_e, kb)
        if len(self.fixpoints) != nfix:
            raise Unsupported('a recursive nested function is started inside a branch')
        envs = got.get('envs', [])
        state = []
        for nm in names:
            if not all(nm in e for e in envs):
                continue
            vals = [e[nm] for e in envs]
            if any(res(v.ty) in NOVALUE or (isinstance(res(v.ty), tuple) and res(v.ty)[0] in ('closure', 'libfn')) for v in vals):
                continue
            state.append(nm)
        types = []
        for nm in state:
            t = envs[0][nm].ty
            for e in envs[1:]:
                t = unify(t, e[nm].ty, 'the value of %s after the branches' % nm.replace('self.', ''))
            types.append(t)
        # second pass with the final state (the text of the first pass is discarded, binder numbers restored)
        self.counter = c0
        return self._join(s, body, orelse, rest, env, env_t, env_e, mk, both, state, types, k)

    def _join(self, s, body, orelse, rest, env, env_t, env_e, mk, both, state, types, k):
        def kb(e):
            return Comp('p', self.state_tuple(state, e))
        a = self.block(body, env_t, kb)
        b = self.block(orelse, env_e, kb)
        c = both(a, b)
        env2 = {nm: v for nm, v in env.items()}
        pat, env2 = self.state_pattern(state, types, env2)
        inner = self.block(rest, env2, k)
        if c.kind == 'p':
            if inner.text == pat:
                return Comp(inner.kind, c.text)
            return Comp(inner.kind, '(let %s := %s in\n    %s)' % (pat, c.text, inner.text))
        if lift(inner) == '(COk %s)' % pat:
            return c
        return Comp('m', '(cbind %s (fun %s =>\n    %s))' % (c.text, pat, lift(inner)))

    def do_for(self, s, rest, env, k):
        if s.orelse:
            raise Unsupported('for ... else')
        for x in dfs(s):
            if isinstance(x, (ast.Break, ast.Continue, ast.Return)):
                raise Unsupported('%s inside a for loop' % type(x).__name__)
        b, it = self.ev(s.iter, env)
        it = self.keys_of(it)
        et = TVar()
        unify(it.ty, seq(et), 'for')
        for x in dfs(s.target):
            if isinstance(x, ast.Name) and x.id in env:
                raise Unsupported('the loop variable %s exists outside the loop' % x.id)
        names = [nm for nm in self.assigned(s.body, env) if nm in env
                 and not (isinstance(res(env[nm].ty), tuple) and res(env[nm].ty)[0] == 'closure')]
        types = [env[nm].ty for nm in names]
        spat, env_in = self.state_pattern(names, types, env)
        tpat, env_in = self.pattern(s.target, et, env_in)
        self.loops.append(set(env))
        try:
            body = self.block(list(s.body), env_in, lambda e: Comp('p', self.state_tuple(names, e)))
        finally:
            self.loops.pop()
        init = self.state_tuple(names, env)
        pat, env2 = self.state_pattern(names, types, env)
        inner = self.block(rest, env2, k)
        if body.kind == 'p':
            if not names:
                self.notes.append('a loop without effect is dropped')
                return self.wrap(b, inner)
            loop = '(fold_left (fun %s %s =>\n    %s) %s %s)' % (spat, tpat, body.text, it.text, init)
            if inner.text == pat:
                return self.wrap(b, Comp(inner.kind, loop))
            return self.wrap(b, Comp(inner.kind, '(let %s := %s in\n    %s)' % (pat, loop, inner.text)))
        loop = '(c_for %s %s (fun %s %s =>\n    %s))' % (it.text, init, spat, tpat, body.text)
        if lift(inner) == '(COk %s)' % pat:
            return self.wrap(b, Comp('m', loop))
        return self.wrap(b, Comp('m', '(cbind %s (fun %s =>\n    %s))' % (loop, pat, lift(inner))))

    # ------------------------------------------------------------ recursive nested functions
    def rec_call(self, cl, fdef, sig, got, env):
        key = id(fdef)
        writes = self.closure_writes(fdef)
        if cl.static is not NOSTATIC:
            # a call from inside the Fixpoint being translated
            info = cl.static
            args = [env[nm].text for nm in info['free']] + [env[nm].text for nm in writes]
            for (nm, _, _), t in zip(sig, info['ptypes']):
                unify(got[nm].ty, t, 'argument %s of %s' % (nm, fdef.name))
                args.append(got[nm].text)
            text = "(%s fuel' %s)" % (info['name'], ' '.join(args))
            return self.rec_result(info, writes, text)
        if key in self.closure_info:
            raise Unsupported('the recursive nested function %s is started more than once' % fdef.name)
        loc = self.locals_of(fdef)
        free = []
        for x in dfs(fdef):
            if isinstance(x, ast.Name) and isinstance(x.ctx, ast.Load) and x.id in env and x.id not in loc \
                    and x.id not in writes and x.id != fdef.name and x.id not in free:
                t = res(env[x.id].ty)
                if t in NOVALUE or (isinstance(t, tuple) and t[0] in ('closure', 'libfn', 'init')):
                    continue
                free.append(x.id)
        for nm in writes:
            self.check_mutable(nm, env, 'the nested function %s' % fdef.name)
        self.fn['nrec'] = self.fn.get('nrec', 0) + 1
        name = '%s_rec%d' % (self.fn['coq'], self.fn['nrec'])
        info = {'name': name, 'free': free, 'ptypes': [got[nm].ty for nm, _, _ in sig], 'ret': TVar(),
                'procedure': not any(isinstance(x, ast.Return) and x.value is not None
                                     and not (isinstance(x.value, ast.Constant) and x.value.value is None) for x in dfs(fdef))}
        self.closure_info[key] = info
        info['wtypes'] = [env[nm].ty for nm in writes]
        # the body, in an environment where the enclosing variables are the Fixpoint's own parameters
        benv = dict(env)
        params = []
        for nm in free:
            v = self.fresh()
            benv[nm] = Val(v, env[nm].ty, mut=False, par=True)
            params.append((v, env[nm].ty))
        for nm in writes:
            v = self.fresh()
            benv[nm] = Val(v, env[nm].ty, mut=True)
            params.append((v, env[nm].ty))
        for (nm, _, _), t in zip(sig, info['ptypes']):
            v = self.fresh()
            benv[nm] = Val(v, t, mut=False)
            params.append((v, t))
        benv[fdef.name] = Val('', ('closure', fdef.name), info=fdef, static=info)
        saved_fn, saved_loops, saved_binds = self.fn, self.loops, self.binds
        self.loops, self.binds = [], []
        if info['procedure']:
            self.fn = {'kind': 'procedure', 'coq': saved_fn['coq'], 'class': saved_fn.get('class'),
                       'end': lambda e: Comp('p', self.state_tuple(writes, e))}
            end = self.fn['end']
        else:
            self.fn = {'kind': 'function', 'coq': saved_fn['coq'], 'class': saved_fn.get('class'), 'ret': info['ret']}

            def end(e):
                raise Unsupported('the nested function %s may fall off its end' % fdef.name)
        try:
            body = self.block(body_without_doc(fdef), benv, end)
        finally:
            self.fn, self.loops, self.binds = saved_fn, saved_loops, saved_binds
        if info['procedure']:
            rty = self.tyref(self.tuple_type(info['wtypes']))
        else:
            rty = self.tyref(info['ret'])
        self.fixpoints.append('  Fixpoint %s (fuel : nat) %s {struct fuel} : cres %s :=\n    match fuel with\n    | O => CFuel\n    | S fuel\' =>\n    %s\n    end.\n' % (
            name, ' '.join('(%s : %s)' % (v, self.tyref(t)) for v, t in params), rty, lift(body)))
        saved_fn['fuel'] = True
        args = [env[nm].text for nm in free] + [env[nm].text for nm in writes] + [got[nm].text for nm, _, _ in sig]
        return self.rec_result(info, writes, '(%s fuel %s)' % (name, ' '.join(args)))

    @staticmethod
    def tuple_type(types):
        if not types:
            return UNIT
        t = types[0]
        for x in types[1:]:
            t = pair(t, x)
        return t

    def rec_result(self, info, writes, text):
        if not info['procedure']:
            return self.push_bind(text, info['ret'])
        vs = [self.fresh() for _ in writes]
        pat = '_' if not vs else (vs[0] if len(vs) == 1 else "'(" + ', '.join(vs) + ')')
        self.binds.append((pat, text))
        return Val('tt', UNIT, info=vs)

    # ------------------------------------------------------------ top-level methods
    def method(self, cname, mname, spec):
        """spec: {'coq': name, 'kind': 'ctor' | 'classmethod' | 'method', 'types': {param name: type}}"""
        d = self.member(cname, mname)
        if d is None or self.classes[cname][0].defs.get(mname) is not d:
            raise Unsupported('%s.%s not found in the class body' % (cname, mname))
        want_dec = ['classmethod'] if spec['kind'] == 'classmethod' else []
        if decorators(d) != want_dec:
            raise Unsupported('decorators of %s.%s' % (cname, mname))
        a = d.args
        if a.vararg or a.kwonlyargs or a.posonlyargs:
            raise Unsupported('signature of %s.%s' % (cname, mname))
        names = [x.arg for x in a.args]
        first = 'cls' if spec['kind'] == 'classmethod' else 'self'
        if not names or names[0] != first:
            raise Unsupported('first parameter of %s.%s' % (cname, mname))
        nd = len(names) - len(a.defaults)
        self.counter, self.binds, self.loops = 0, [], []
        self.fn = {'kind': 'ctor' if spec['kind'] == 'ctor' else 'function', 'coq': spec['coq'], 'class': cname, 'ret': TVar()}
        env, binders, sig = {}, [], []
        if spec['kind'] == 'classmethod':
            env['cls'] = Val('', CLS)
        elif spec['kind'] == 'ctor':
            env['self'] = Val('', ('init', cname), info='init')
        else:
            env['self'] = Val('a1', ARR, par=True)
            binders.append(('a1', ARR))
        if a.kwarg is not None:
            env[a.kwarg.arg] = Val('', IGN)
        for i, nm in enumerate(names[1:], start=1):
            if nm not in spec['types']:
                raise Unsupported('%s.%s has an unknown parameter %s' % (cname, mname, nm))
            t = spec['types'][nm]
            dflt = a.defaults[i - nd] if i >= nd else None
            if t == SYMARG:
                env[nm] = Val('', SYMARG)
                sig.append((nm, SYMARG, dflt))
                continue
            if t == STR:
                if not (isinstance(dflt, ast.Constant) and isinstance(dflt.value, str)):
                    raise Unsupported('%s.%s: %s has no constant default' % (cname, mname, nm))
                env[nm] = Val('', STR, static=dflt.value)
                self.notes.append('%s: the parameter %s (diagnostics only) is specialised to its default %r' % (mname, nm, dflt.value))
                continue
            v = 'a%d' % (len(binders) + 1)
            env[nm] = Val(v, t, par=True, mut=True)
            binders.append((v, t))
            sig.append((nm, t, dflt))
        if spec['kind'] == 'ctor':
            def end(e, cname=cname):
                if cname == 'BlockIndex':
                    for sl in ('_chargemap', '_dual', '_subinfo', '_hashkey'):
                        if 'self.' + sl not in e:
                            raise Unsupported('BlockIndex.__init__ does not assign %s' % sl)
                    return Comp('p', '(Index G %s %s %s)' % tuple(e['self.' + sl].text for sl in ('_chargemap', '_dual', '_subinfo')))
                for sl in ('_indices', '_charge', '_blocks', '_symmetry'):
                    if 'self.' + sl not in e:
                        raise Unsupported('AbelianArray.__init__ does not assign %s' % sl)
                return Comp('p', '(mkA G R %s %s %s)' % tuple(e['self.' + sl].text for sl in ('_indices', '_charge', '_blocks')))
            rt = INDEX if cname == 'BlockIndex' else ARR
        else:
            def end(e):
                raise Unsupported('%s.%s may fall off its end' % (cname, mname))
            rt = spec['ret']
            unify(self.fn['ret'], rt, 'result of %s' % mname)
        body = self.block(body_without_doc(d), env, end)
        fuel = '(fuel : nat) ' if self.fn.get('fuel') else ''
        text = ''.join(self.fixpoints)
        self.fixpoints = []
        text += '  Definition %s %s%s : %s :=\n    %s.\n' % (
            spec['coq'], fuel, ' '.join('(%s : %s)' % (v, self.tyref(t)) for v, t in binders),
            ('cres %s' if body.kind == 'm' else '%s') % self.tyref(rt), body.text)
        if spec['kind'] == 'ctor':
            self.sigs[cname] = (spec['coq'], body.kind == 'm', sig)
        return self.finalize(text)


FN = ('fn', (seq(NAT),), TENSOR)
METHODS = [
    ('BlockIndex', '__init__', {'coq': 'block_index_init_gen', 'kind': 'ctor',
                                'types': {'chargemap': CHARGEMAP, 'dual': BOOL, 'subinfo': SUBINFO}}),
    ('AbelianArray', '__init__', {'coq': 'array_init_gen', 'kind': 'ctor',
                                  'types': {'indices': seq(INDEX), 'charge': opt(CH), 'blocks': BLOCKS, 'symmetry': SYMARG}}),
    ('AbelianArray', 'from_fill_fn', {'coq': 'from_fill_fn_gen', 'kind': 'classmethod', 'ret': ARR,
                                      'types': {'fill_fn': FN, 'indices': seq(INDEX), 'charge': opt(CH), 'symmetry': SYMARG}}),
    ('AbelianArray', 'from_blocks', {'coq': 'from_blocks_gen', 'kind': 'classmethod', 'ret': ARR,
                                     'types': {'blocks': BLOCKS, 'duals': seq(BOOL), 'charge': opt(CH), 'symmetry': SYMARG}}),
    ('AbelianArray', 'from_dense', {'coq': 'from_dense_gen', 'kind': 'classmethod', 'ret': ARR,
                                    'types': {'array': TENSOR, 'index_maps': seq(seq(CH)), 'duals': seq(BOOL), 'charge': opt(CH),
                                              'symmetry': SYMARG, 'invalid_sectors': STR}}),
    ('AbelianArray', 'to_dense', {'coq': 'to_dense_gen', 'kind': 'method', 'ret': TENSOR, 'types': {}}),
]


def module_classes(path):
    try:
        tree = ast.parse(open(path).read())
    except SyntaxError as e:
        raise Unsupported('cannot parse %s: %s' % (path, e))
    return tree, {n.name: n for n in tree.body if isinstance(n, ast.ClassDef)}


def check_module(tree):
    """names the translation gives a fixed meaning to are not rebound at module level or anywhere in the file"""
    fixed = set(BUILTINS) | {'ar', 'warnings', 'BlockIndex', 'DEBUG'}
    for n in ast.walk(tree):
        names = []
        if isinstance(n, ast.Assign):
            names = [x.id for t in n.targets for x in ast.walk(t) if isinstance(x, ast.Name) and isinstance(x.ctx, ast.Store)]
        elif isinstance(n, (ast.AugAssign, ast.AnnAssign, ast.For)):
            names = [x.id for x in ast.walk(n.target) if isinstance(x, ast.Name) and isinstance(x.ctx, ast.Store)]
        elif isinstance(n, ast.FunctionDef):
            names = [n.name]
        elif isinstance(n, ast.arg):
            names = [n.arg]
        elif isinstance(n, ast.ClassDef):
            names = [] if n.name == 'BlockIndex' else [n.name]
        elif isinstance(n, (ast.Import, ast.ImportFrom)):
            for al in n.names:
                nm = al.asname or al.name
                ok = (isinstance(n, ast.Import) and ((al.name == 'autoray' and al.asname == 'ar') or (al.name == 'warnings' and al.asname is None))) \
                    or (isinstance(n, ast.ImportFrom) and n.module == 'utils' and n.level == 1 and al.name == 'DEBUG' and al.asname is None)
                if nm in fixed and not ok:
                    names.append(nm)
        for nm in names:
            if nm in fixed:
                raise Unsupported('the name %s is rebound in abelian_core.py' % nm)
    have = set()
    for n in tree.body:
        if isinstance(n, ast.Import):
            for al in n.names:
                have.add((al.name, al.asname))
        elif isinstance(n, ast.ImportFrom):
            for al in n.names:
                have.add((n.module, al.name))
    for need in (('autoray', 'ar'), ('warnings', None), ('utils', 'DEBUG')):
        if need not in have:
            raise Unsupported('abelian_core.py does not import %s as expected' % (need,))


def generate(repo):
    sys.path.insert(0, os.path.dirname(os.path.abspath(__file__)))
    import gen_sectors
    tree, cl = module_classes(os.path.join(repo, 'symmray', 'abelian_core.py'))
    _, bl = module_classes(os.path.join(repo, 'symmray', 'block_core.py'))
    check_module(tree)
    for nm in ('AbelianArray', 'BlockIndex'):
        if nm not in cl:
            raise Unsupported('class %s not found at module level' % nm)
    bases = [ast.unparse(b) for b in cl['AbelianArray'].bases]
    if bases != ['BlockBase'] or 'BlockBase' not in bl or cl['BlockIndex'].bases or bl['BlockBase'].bases:
        raise Unsupported('base classes of AbelianArray / BlockIndex / BlockBase')
    if not any(isinstance(n, ast.ImportFrom) and n.module == 'block_core' and n.level == 1
               and any(a.name == 'BlockBase' and a.asname is None for a in n.names) for n in tree.body):
        raise Unsupported('BlockBase is not imported from .block_core')
    classes = {'AbelianArray': [ClassInfo(cl['AbelianArray']), ClassInfo(bl['BlockBase'])], 'BlockIndex': [ClassInfo(cl['BlockIndex'])]}
    notes = []
    T = Tr(classes, notes)
    out = [HEADER]
    for cname, mname, spec in METHODS:
        try:
            out.append(T.method(cname, mname, spec))
        except Unsupported as e:
            raise Unsupported('%s.%s: %s' % (cname, mname, e))
    out.append(FOOTER)
    # the members translated in place are not overridden by a subclass (the translated top-level methods may be:
    # FermionicArray extends __init__ / to_dense around the abelian core, Model/Fermi.v)
    gen_sectors.check_no_override(repo, 'AbelianArray', T.used['AbelianArray'] - {'gen_valid_sectors'})
    gen_sectors.check_no_override(repo, 'BlockIndex', T.used['BlockIndex'])
    notes.append('members translated in place: of an array: %s; of an index: %s'
                 % (', '.join(sorted(T.used['AbelianArray'])) or '-', ', '.join(sorted(T.used['BlockIndex'])) or '-'))
    out.append('(* translator notes:\n' + '\n'.join('   ' + n for n in sorted(set(notes))) + '\n*)')
    return '\n'.join(out) + '\n'


def generate_all(repo):
    return {'CtorAlgGen.v': generate(repo)}


if __name__ == '__main__':
    print(generate(os.environ.get('SYMMRAY_REPO', '/repo')))
