"""Regenerate coq/Gen/FuseGen.v from the CURRENT source of `calc_fuse_block_info`
(in full) and of the sector / slice logic of `_fuse_blocks_via_insert` in
$SYMMRAY_REPO/symmray/abelian_core.py: for every stored sector the new fused
sector, the sub-sector of every group, the signed charges that are combined, the
fused block shape; per group the `subinfos` dict, its SORTED traversal into the
fused charge table and the `extents` (ordered dict of ordered dicts), the new
index list with its sub-index information, and the block map; for the insert
strategy the slice table (`accum_for_split` over the extents) and, per stored
sector, the selector (which slice of which fused block the sub-block goes to).
Fail-closed: every statement / expression form outside the fragment below
raises `pygallina.Unsupported` (a broken translator tie of C05, never a silent
skip).  The cache in front of the function (`cached_fuse_block_info`) is not
part of this file (property C15).

The functions are imperative (nested loops, in-place updates of lists of lists
and lists of dicts, a memoising `try/except KeyError`, variables that are
`None` on one path), so they are compiled statement by statement from their
`ast` into Gallina over the development's array representation (Model/Array.v):

  * `self.indices` / `self.blocks` / `self.duals`, `ix.size_of(c)`, `ix.dual`,
    `ix.subinfo.extents`, `self.symmetry.combine( *cs )`, `self.symmetry.sign(c,
    b)`, `BlockIndex(chargemap=, dual=, subinfo=SubIndexInfo(indices=,
    extents=))` are the record projections / constructors of Model/Array.v
    (fixed interface: `BlockIndex(..)` is `mk_index`, which sorts the charge
    table as `BlockIndex.__init__` does);
  * `calc_fuse_group_info(axes_groups, self.duals)` is NOT re-translated: the
    i-th unpacked name is bound to the generated projection
    `Helpers.cfgi_<name returned at position i>` of Gen/Helpers.v
    (tr/gen_helpers.py); `accum_for_split` is `Helpers.accum_for_split`;
  * axes, group numbers and positions are Python ints = `Z` (lists are indexed
    as Python does, negative from the end); block sizes are `nat` (they come
    from `size_of`); which of the two an integer literal or `+`/`*` means is
    found by unification;
  * tuples and lists are lists; dicts are insertion-ordered association lists
    (Prelude.lookup / dset); a value that may be `None` is an `option`
    (`x is None` / `x is not None` on a name is a `match` that rebinds the name);
  * `[None] * n` is a list of n not-yet-written slots, represented by the
    default element of the slot type (every slot is written before it is read
    whenever Proofs/FuseGenProofs.v applies; the run-time tie compares the
    stored values with the implementation's);
  * `for` is `fold_left` over the tuple of the variables the body assigns or
    mutates that exist before the loop (names first bound inside the body are
    local to one iteration; loop variables are unusable after the loop);
  * `try: <names> = D[k]  except KeyError: <handler>` is `match lookup k D`,
    the handler must bind the same names;
  * `if c: continue` at the top level of a loop body is `if not c: <rest of
    the body>`; `[x for x in l]` / `tuple(tuple(x) for x in l)` /
    `tuple(map(tuple, l))` are copies of the values (= l);
  * in-place updates `l[i] = v`, `l[i] *= v`, `l[i].append(v)`, `l[i].clear()`,
    `l[i][k] = v`, `d[k] += v`, `d[k][k2] = v` rebuild the container
    (`g_lupd` / `g_dupd` / `dset`); a mutable object may be stored into a
    container only as a fresh literal or by a local name that is not used
    afterwards (no aliasing is modelled, none is needed);
  * `sorted(D.items())` is insertion sort by the key (the keys of a dict are
    pairwise distinct, so the values never decide), keys compared as Python
    compares tuples of charges (`list_ltb (cltb G)`);
  * in `_fuse_blocks_via_insert` the dense-block statements are recognised
    exactly and mapped to the abstract tensor operations of Base/Tensor.v:
    `_transpose(a, perm)` = ttranspose, `_reshape(a, shape)` = treshape,
    `_zeros(shape, **zeros_kwargs)` = tzeros, `B[tuple(selector)] = a` on the
    block just read from / stored into `new_blocks[new_sector]` (either
    `try: B = D[k] except KeyError: B = D[k] = <zeros>` or `if k in D: B = D[k]
    else: B = <zeros>; D[k] = B`) = tassign followed by the store into the dict; `slice(None)` is the full range of the
    axis, `slice(a, b)` the pair (a, b); the selector handed to `tassign` is
    (start, length) per axis.

IndexError / KeyError / TypeError (None used as a number) are not modelled: the
generated functions are total (defaults `ident G`, `[]`, 0, ...; out-of-range
stores do nothing).  Local names are alpha-normalised (`v1, v2, ...`); the
results are named by POSITION in the returned tuple."""
import ast
import os
import re
import sys

sys.path.insert(0, os.path.dirname(os.path.abspath(__file__)))
from pygallina import Unsupported  # noqa: E402
import gen_helpers  # noqa: E402

HEADER = '''(* GENERATED by tr/gen_fuse.py from symmray/abelian_core.py (calc_fuse_block_info, _fuse_blocks_via_insert) - do not edit. *)
From SV Require Import Base.Prelude Base.PyList Base.Sym Base.Tensor Model.Sectors Model.Array.
From SV Require Gen.Helpers.
Local Open Scope nat_scope.

(* ---- fixed run-time library of the translation (Python semantics of the constructs used) ---- *)
(* position of l[i] (negative i from the end); None where Python raises IndexError *)
Definition g_norm_index (len : nat) (i : Z) : option nat :=
  if Z.ltb i 0
  then (if Z.ltb (Z.add (Z.of_nat len) i) 0 then None else Some (Z.to_nat (Z.add (Z.of_nat len) i)))
  else (if Z.ltb i (Z.of_nat len) then Some (Z.to_nat i) else None).
Fixpoint g_upd_nat {A} (l : list A) (i : nat) (f : A -> A) : list A :=
  match l, i with
  | [], _ => []
  | x :: l', O => f x :: l'
  | x :: l', S i' => x :: g_upd_nat l' i' f
  end.
(* l[i] = f(l[i]) in place (IndexError not modelled: out of range = unchanged) *)
Definition g_lupd {A} (l : list A) (i : Z) (f : A -> A) : list A :=
  match g_norm_index (length l) i with Some k => g_upd_nat l k f | None => l end.
(* d[k] = f(d[k]) in place for an existing key (KeyError not modelled: absent = unchanged) *)
Definition g_dupd {K V} (e : K -> K -> bool) (k : K) (f : V -> V) (d : list (K * V)) : list (K * V) :=
  match lookup e k d with Some v => dset e k (f v) d | None => d end.
(* a value that is not None at this point (TypeError / AttributeError of None not modelled) *)
Definition g_the {A} (dflt : A) (o : option A) : A := match o with Some v => v | None => dflt end.
(* x in l  where x may be None (None is in no list of numbers) *)
Definition g_omem {A} (e : A -> A -> bool) (o : option A) (l : list A) : bool :=
  match o with Some v => mem e v l | None => false end.
(* sorted(d.items()): the keys of a dict are pairwise distinct, so the order of the items is the order of the keys *)
Definition g_sorted_items {K V} (ltb : K -> K -> bool) (d : list (K * V)) : list (K * V) :=
  isort (fun a b => ltb (fst a) (fst b)) d.
(* {k: v for ...} / dict(pairs): later items replace earlier ones in place *)
Definition g_dict_of {K V} (e : K -> K -> bool) (l : list (K * V)) : list (K * V) :=
  fold_left (fun d p => dset e (fst p) (snd p) d) l [].
(* slice(a, b) as (start, length) of an axis of extent n; None = slice(None) = the whole axis *)
Definition g_slice_range (n : nat) (s : option (Z * Z)) : nat * nat :=
  match s with Some (a, b) => (Z.to_nat a, Z.to_nat (Z.sub b a)) | None => (0, n) end.

(* ---- the translated routines ---- *)
Section FuseGen.
  Context (G : Symmetry) (R : Ring).

'''

FOOTER = 'End FuseGen.\n'

# role of each position of the tuple `calc_fuse_block_info` returns (the callers unpack it by position)
CFBI_ROLES = ['num_groups', 'group_singlets', 'perm', 'position', 'axes_before', 'axes_after', 'new_axes',
              'new_indices', 'blockmap']


# ------------------------------------------------------------------ types
class TVar:
    n = 0

    def __init__(self, num=False):
        TVar.n += 1
        self.id = TVar.n
        self.t = None
        self.num = num


def res(t):
    while isinstance(t, TVar) and t.t is not None:
        t = t.t
    return t


def seq(t, mut=False):
    return ('seq', t, mut)


def opt(t):
    return ('opt', t)


def tup(ts):
    return ('tuple', list(ts))


def kind(t):
    t = res(t)
    if isinstance(t, TVar):
        return '?'
    if isinstance(t, str):
        return t
    return t[0]


SEC = seq('ch')
SLICE = opt(tup(['Z', 'Z']))          # slice(None) = None, slice(a, b) = Some (a, b)
EXTENT = ('dict', SEC, 'nat')
EXTENTS = ('dict', 'ch', EXTENT)


def show(t):
    t = res(t)
    if isinstance(t, TVar):
        return '?'
    if isinstance(t, str):
        return t
    if t[0] == 'tuple':
        return '(' + ' * '.join(show(x) for x in t[1]) + ')'
    return '(' + ' '.join([t[0]] + [show(x) for x in t[1:] if not isinstance(x, bool)]) + ')'


def occurs(v, t):
    t = res(t)
    if t is v:
        return True
    if isinstance(t, (str, TVar)):
        return False
    if t[0] == 'tuple':
        return any(occurs(v, x) for x in t[1])
    return any(occurs(v, x) for x in t[1:] if not isinstance(x, bool))


def unify(a, b, what):
    a, b = res(a), res(b)
    if a is b:
        return
    if isinstance(a, TVar) or isinstance(b, TVar):
        if not isinstance(a, TVar):
            a, b = b, a
        if occurs(a, b):
            raise Unsupported('%s: cyclic type' % what)
        if a.num and not isinstance(b, TVar) and b not in ('Z', 'nat'):
            raise Unsupported('%s: a number where %s is expected' % (what, show(b)))
        if a.num and isinstance(b, TVar):
            b.num = True
        a.t = b
        return
    if isinstance(a, str) or isinstance(b, str):
        if a != b:
            raise Unsupported('%s: type %s where %s is expected' % (what, show(a), show(b)))
        return
    if a[0] != b[0]:
        raise Unsupported('%s: type %s where %s is expected' % (what, show(a), show(b)))
    if a[0] == 'tuple':
        if len(a[1]) != len(b[1]):
            raise Unsupported('%s: tuples of %d and %d items' % (what, len(a[1]), len(b[1])))
        for x, y in zip(a[1], b[1]):
            unify(x, y, what)
    elif a[0] in ('seq', 'opt'):
        unify(a[1], b[1], what)
    elif a[0] == 'dict':
        unify(a[1], b[1], what)
        unify(a[2], b[2], what)
    else:
        raise Unsupported('%s: type %s' % (what, show(a)))


def ty_str(t):
    t = res(t)
    if isinstance(t, TVar):
        raise Unsupported('the type of an empty container / unwritten slot is never fixed')
    if t == 'arr':
        return '(aarray G R)'
    if t == 'idx':
        return '(index G)'
    if t == 'ch':
        return '(C G)'
    if t == 'ten':
        return '(tensor R)'
    if t in ('nat', 'bool', 'Z'):
        return t
    if t[0] == 'seq':
        return '(list %s)' % ty_str(t[1])
    if t[0] == 'dict':
        return '(list (%s * %s))' % (ty_str(t[1]), ty_str(t[2]))
    if t[0] == 'opt':
        return '(option %s)' % ty_str(t[1])
    if t[0] == 'tuple':
        return '(' + ' * '.join(ty_str(x) for x in t[1]) + ')'
    raise Unsupported('type %s' % show(t))


def eqb_for(t):
    t = res(t)
    if t == 'ch':
        return '(ceqb G)'
    if t == 'nat':
        return 'Nat.eqb'
    if t == 'Z':
        return 'Z.eqb'
    if t == 'bool':
        return 'Bool.eqb'
    if not isinstance(t, (str, TVar)):
        if t[0] == 'seq':
            return '(list_eqb %s)' % eqb_for(t[1])
        if t[0] == 'tuple':
            e = eqb_for(t[1][0])
            for x in t[1][1:]:
                e = '(pair_eqb %s %s)' % (e, eqb_for(x))
            return e
    raise Unsupported('equality / hashing of %s' % show(t))


def ltb_for(t):
    t = res(t)
    if t == 'ch':
        return '(cltb G)'
    if t == 'Z':
        return 'Z.ltb'
    if t == 'nat':
        return 'Nat.ltb'
    if not isinstance(t, (str, TVar)) and t[0] == 'seq':
        return '(list_ltb %s %s)' % (ltb_for(t[1]), eqb_for(t[1]))
    raise Unsupported('ordering of %s' % show(t))


def dflt_for(t):
    t = res(t)
    if t == 'ch':
        return '(ident G)'
    if t == 'idx':
        return '(dflt_index G)'
    if t == 'ten':
        return '(tzeros R [])'
    if t == 'nat':
        return '0'
    if t == 'Z':
        return '0%Z'
    if t == 'bool':
        return 'false'
    if isinstance(t, (str, TVar)):
        raise Unsupported('default value of %s' % show(t))
    if t[0] in ('seq', 'dict'):
        return '[]'
    if t[0] == 'opt':
        return 'None'
    if t[0] == 'tuple':
        return '(' + ', '.join(dflt_for(x) for x in t[1]) + ')'
    raise Unsupported('default value of %s' % show(t))


def is_mutable(t):
    t = res(t)
    if isinstance(t, TVar):
        return False
    if isinstance(t, str):
        return False
    if t[0] == 'seq':
        return t[2] or is_mutable(t[1])
    if t[0] == 'tuple':
        return any(is_mutable(x) for x in t[1])
    if t[0] == 'opt':
        return is_mutable(t[1])
    return True         # dict


def frozen(t):
    """the type of an immutable snapshot of a value of type t"""
    t0 = res(t)
    if isinstance(t0, (str, TVar)):
        return t
    if t0[0] == 'seq':
        return seq(t0[1], False)
    return t


def ind(text, n=2):
    pad = ' ' * n
    return '\n'.join(pad + l if l else l for l in text.split('\n'))


def names_used(node):
    return {n.id for n in ast.walk(node) if isinstance(n, ast.Name)}


def target_names(t):
    if isinstance(t, ast.Name):
        return [t.id]
    if isinstance(t, ast.Tuple):
        return [x for e in t.elts for x in target_names(e)]
    raise Unsupported('target %s' % ast.unparse(t))


# ------------------------------------------------------------------ bindings
class Val:
    def __init__(self, term, t, param=False):
        self.term, self.t, self.param = term, t, param


class FnAlias:
    """a name for self.symmetry.combine / self.symmetry.sign, or an abstract dense-block routine"""
    def __init__(self, what):
        self.what = what


class Skip:
    """a parameter the translated fragment may only pass on to the routine it belongs to"""
    def __init__(self, what):
        self.what = what


MARK = re.compile('\x00(\\d+)\x00')


class Comp:
    def __init__(self, cfgi_names):
        self.counter = 0
        self.notes = []
        self.defs = []
        self.numvars = []
        self.cfgi_names = cfgi_names
        self.depth = 0
        self.ret = None
        self.nbranch = 0

    # ---------------------------------------------------------------- plumbing
    def fresh(self):
        self.counter += 1
        return 'v%d' % self.counter

    def defer(self, fn):
        self.defs.append(fn)
        return '\x00%d\x00' % (len(self.defs) - 1)

    def finish(self, text):
        for v in self.numvars:
            r = res(v)
            if isinstance(r, TVar):
                r.t = 'Z'
        while True:
            m = MARK.search(text)
            if not m:
                return text
            text = text[:m.start()] + self.defs[int(m.group(1))]() + text[m.end():]

    def note(self, s):
        if s not in self.notes:
            self.notes.append(s)

    def num(self):
        v = TVar(num=True)
        self.numvars.append(v)
        return v

    def numop(self, t, z, n):
        def f():
            r = res(t)
            if r == 'nat':
                return n
            if r == 'Z':
                return z
            raise Unsupported('arithmetic on %s' % show(r))
        return self.defer(f)

    def nil(self, t):
        """[] : t (t a seq or dict type)"""
        def f():
            r = res(t)
            if r[0] == 'seq':
                return '(@nil %s)' % ty_str(r[1])
            return '(@nil (%s * %s))' % (ty_str(r[1]), ty_str(r[2]))
        return self.defer(f)

    # -------- values flowing into a slot (a container element, a variable joined over branches)
    def flow(self, term, vt, slot, what):
        rs, rv = res(slot), res(vt)
        if isinstance(rv, TVar) or isinstance(rs, TVar) or (kind(rs) == 'opt') == (kind(rv) == 'opt'):
            unify(vt, slot, what)
        elif kind(rs) == 'opt':
            unify(vt, rs[1], what)
        else:
            # the slot held plain values so far and now receives an optional one: it becomes optional
            tv = slot
            while isinstance(tv, TVar) and isinstance(tv.t, TVar):
                tv = tv.t
            if not isinstance(tv, TVar):
                raise Unsupported('%s: %s where %s is expected' % (what, show(rv), show(rs)))
            old = tv.t
            tv.t = opt(old)
            unify(rv[1], old, what)

        def f():
            if kind(slot) == 'opt' and kind(vt) != 'opt':
                return '(Some %s)' % term
            return term
        return self.defer(f)

    def need(self, term, vt, want, what):
        """a value used where a plain `want` is required; an optional one is taken to be present"""
        rv = res(vt)
        if kind(rv) == 'opt' and kind(want) != 'opt':
            unify(rv[1], want, what)
            self.note('a value that may be None used as %s: TypeError / AttributeError of None is not modelled (g_the)' % what)
            return self.defer(lambda: '(g_the %s %s)' % (dflt_for(want), term))
        unify(vt, want, what)
        return term

    # --------------------------------------------------------------- analysis
    def mutated(self, stmts):
        """names assigned or mutated in place by `stmts`, in order of first occurrence"""
        out = []

        def add(x):
            if x not in out:
                out.append(x)

        def root(t):
            while isinstance(t, ast.Subscript):
                t = t.value
            if not isinstance(t, ast.Name):
                raise Unsupported('assignment / update target %s' % ast.unparse(t))
            return t.id

        def tgt(t):
            if isinstance(t, ast.Name):
                add(t.id)
            elif isinstance(t, ast.Tuple):
                for e in t.elts:
                    tgt(e)
            elif isinstance(t, ast.Subscript):
                add(root(t))
            else:
                raise Unsupported('assignment target %s' % ast.unparse(t))
        for s in stmts:
            if isinstance(s, ast.Assign):
                for t in s.targets:
                    tgt(t)
            elif isinstance(s, ast.AugAssign):
                tgt(s.target)
            elif isinstance(s, ast.Expr) and isinstance(s.value, ast.Call) and isinstance(s.value.func, ast.Attribute):
                add(root(s.value.func.value))
            elif isinstance(s, ast.Expr) and isinstance(s.value, ast.Constant) and isinstance(s.value.value, str):
                pass
            elif isinstance(s, ast.For):
                if s.orelse:
                    raise Unsupported('for ... else')
                tgt(s.target)
                for x in self.mutated(s.body):
                    add(x)
            elif isinstance(s, ast.If):
                for x in self.mutated(s.body) + self.mutated(s.orelse):
                    add(x)
            elif isinstance(s, ast.Try):
                if s.orelse or s.finalbody:
                    raise Unsupported('try ... else / finally')
                for x in self.mutated(s.body):
                    add(x)
                for h in s.handlers:
                    for x in self.mutated(h.body):
                        add(x)
            elif isinstance(s, (ast.Pass, ast.Return, ast.Continue)):
                pass
            else:
                raise Unsupported('statement %s' % ast.unparse(s)[:80])
        return out

    @staticmethod
    def without_continue(stmts):
        """`if c: continue` at the top level of a loop body  ->  `if not c: <the rest of the body>`"""
        for i, s in enumerate(stmts):
            if isinstance(s, ast.If) and not s.orelse and len(s.body) == 1 and isinstance(s.body[0], ast.Continue):
                rest = Comp.without_continue(stmts[i + 1:])
                if not rest:
                    return stmts[:i]
                guard = ast.If(test=ast.UnaryOp(op=ast.Not(), operand=s.test), body=rest, orelse=[])
                return stmts[:i] + [ast.copy_location(guard, s)]
        return stmts

    def definitely(self, stmts):
        """names bound on every path through `stmts` (plain assignments only)"""
        out = []
        for s in stmts:
            new = []
            if isinstance(s, ast.Assign) and len(s.targets) == 1 and isinstance(s.targets[0], (ast.Name, ast.Tuple)):
                new = target_names(s.targets[0])
            elif isinstance(s, ast.If):
                a, b = self.definitely(s.body), self.definitely(s.orelse)
                new = [x for x in a if x in b]
            elif isinstance(s, ast.Try) and len(s.handlers) == 1:
                a, b = self.definitely(s.body), self.definitely(s.handlers[0].body)
                new = [x for x in a if x in b]
            for x in new:
                if x not in out:
                    out.append(x)
        return out

    # ------------------------------------------------------------ expressions
    def ex(self, n, env):
        m = getattr(self, 'e_' + type(n).__name__, None)
        if m is None:
            raise Unsupported('expression %s' % ast.unparse(n)[:80])
        return m(n, env)

    def e_Name(self, n, env):
        b = env.get(n.id)
        if isinstance(b, Val):
            return b.term, b.t
        if b is None:
            raise Unsupported('free name %s (or a name that is no longer usable here: a loop variable after its '
                              'loop, a container that was stored into another one)' % n.id)
        raise Unsupported('%s is read as a value but denotes %s' % (n.id, getattr(b, 'what', type(b).__name__)))

    def e_Constant(self, n, env):
        v = n.value
        if v is True:
            return 'true', 'bool'
        if v is False:
            return 'false', 'bool'
        if v is None:
            return 'None', opt(TVar())
        if isinstance(v, int) and v >= 0:
            t = self.num()
            return self.numop(t, '(%d)%%Z' % v, '%d' % v), t
        raise Unsupported('constant %r' % (v,))

    ATTRS = {('arr', 'blocks'): ('(blocks G R %s)', ('dict', SEC, 'ten')),
             ('arr', 'sectors'): ('(sectors G R %s)', seq(SEC)),
             ('arr', 'indices'): ('(indices G R %s)', seq('idx')),
             ('arr', 'duals'): ('(duals G R %s)', seq('bool')),
             ('arr', 'charge'): ('(charge G R %s)', 'ch'),
             ('idx', 'dual'): ('(idual G %s)', 'bool'),
             ('idx', 'chargemap'): ('(chargemap G %s)', ('dict', 'ch', 'nat')),
             ('idx', 'charges'): ('(icharges G %s)', seq('ch'))}

    def e_Attribute(self, n, env):
        # ix.subinfo.extents / ix.subinfo.indices (AttributeError of a missing subinfo not modelled)
        if n.attr in ('extents', 'indices') and isinstance(n.value, ast.Attribute) and n.value.attr == 'subinfo':
            x, t = self.ex(n.value.value, env)
            if res(t) == 'idx':
                self.note('ix.subinfo.%s of an index without sub-index information: AttributeError is not modelled '
                          '(empty table)' % n.attr)
                if n.attr == 'extents':
                    return '(match isub G %s with Some si => snd si | None => [] end)' % x, EXTENTS
                return '(match isub G %s with Some si => fst si | None => [] end)' % x, seq('idx')
        x, t = self.ex(n.value, env)
        t = res(t)
        key = (t, n.attr) if isinstance(t, str) else None
        if key not in self.ATTRS:
            raise Unsupported('attribute %s of %s' % (n.attr, show(t)))
        f, rt = self.ATTRS[key]
        return f % x, rt

    def index(self, node, env, what):
        i, ti = self.ex(node, env)
        r = res(ti)
        if r == 'nat':
            return '(Z.of_nat %s)' % i
        return self.need(i, ti, 'Z', what)

    def e_Subscript(self, n, env):
        if isinstance(n.slice, ast.Slice):
            raise Unsupported('slice %s' % ast.unparse(n))
        x, t = self.ex(n.value, env)
        rt = res(t)
        if kind(rt) == 'opt' and kind(rt[1]) in ('seq', 'dict'):
            inner = rt[1]
            x = self.need(x, t, inner, 'a container')
            rt = res(inner)
        if isinstance(rt, (str, TVar)):
            raise Unsupported('subscript of %s' % show(rt))
        if rt[0] == 'seq':
            i = self.index(n.slice, env, 'a sequence index')
            et = rt[1]
            return self.defer(lambda: '(py_nth %s %s %s)' % (dflt_for(et), x, i)), et
        if rt[0] == 'dict':
            k, tk = self.ex(n.slice, env)
            unify(tk, rt[1], 'dict key')
            kt, vt = rt[1], rt[2]
            return self.defer(lambda: '(dget %s %s %s %s)' % (eqb_for(kt), dflt_for(vt), x, k)), vt
        if rt[0] == 'tuple' and isinstance(n.slice, ast.Constant) and isinstance(n.slice.value, int) \
                and 0 <= n.slice.value < len(rt[1]):
            return self.proj(x, len(rt[1]), n.slice.value), rt[1][n.slice.value]
        raise Unsupported('subscript of %s' % show(rt))

    @staticmethod
    def proj(x, n, i):
        """component i of the left-nested n-tuple x"""
        term = x
        for _ in range(n - 1 - max(i, 1)):
            term = '(fst %s)' % term
        if n == 1:
            return term
        return '(fst %s)' % term if i == 0 else '(snd %s)' % term

    def cond(self, n, env):
        if isinstance(n, ast.UnaryOp) and isinstance(n.op, ast.Not):
            return '(negb %s)' % self.cond(n.operand, env)
        if isinstance(n, ast.BoolOp):
            op = '&&' if isinstance(n.op, ast.And) else '||'
            return '(' + (' %s ' % op).join(self.cond(v, env) for v in n.values) + ')'
        x, t = self.ex(n, env)
        t = res(t)
        if t == 'bool':
            return x
        raise Unsupported('truth value of %s' % show(t))

    def e_BoolOp(self, n, env):
        return self.cond(n, env), 'bool'

    def e_UnaryOp(self, n, env):
        if isinstance(n.op, ast.Not):
            return self.cond(n, env), 'bool'
        raise Unsupported('unary operation %s' % ast.unparse(n)[:60])

    def e_Compare(self, n, env):
        if len(n.ops) != 1:
            raise Unsupported('chained comparison')
        op, rhs = n.ops[0], n.comparators[0]

        def neg(x, yes):
            return x if yes else '(negb %s)' % x
        if isinstance(op, (ast.Is, ast.IsNot)):
            if not (isinstance(rhs, ast.Constant) and rhs.value is None):
                raise Unsupported('comparison %s' % ast.unparse(n)[:60])
            a, ta = self.ex(n.left, env)
            unify(ta, opt(TVar()), '`is None`')
            return neg('(is_none %s)' % a, isinstance(op, ast.Is)), 'bool'
        a, ta = self.ex(n.left, env)
        b, tb = self.ex(rhs, env)
        rb = res(tb)
        if isinstance(op, (ast.In, ast.NotIn)):
            if kind(rb) == 'seq':
                if kind(ta) == 'opt' and kind(rb[1]) != 'opt':
                    unify(res(ta)[1], rb[1], 'membership')
                    et = rb[1]
                    return neg(self.defer(lambda: '(g_omem %s %s %s)' % (eqb_for(et), a, b)), isinstance(op, ast.In)), 'bool'
                unify(ta, rb[1], 'membership')
                return neg(self.defer(lambda: '(mem %s %s %s)' % (eqb_for(ta), a, b)), isinstance(op, ast.In)), 'bool'
            if kind(rb) == 'dict':
                unify(ta, rb[1], 'membership')
                return neg(self.defer(lambda: '(dhas %s %s %s)' % (eqb_for(ta), a, b)), isinstance(op, ast.In)), 'bool'
            raise Unsupported('membership in %s' % show(rb))
        if isinstance(op, (ast.Eq, ast.NotEq)):
            unify(ta, tb, 'comparison')
            return neg(self.defer(lambda: '(%s %s %s)' % (eqb_for(ta), a, b)), isinstance(op, ast.Eq)), 'bool'
        raise Unsupported('comparison %s' % ast.unparse(n)[:60])

    def e_IfExp(self, n, env):
        c = self.cond(n.test, env)
        a, ta = self.ex(n.body, env)
        b, tb = self.ex(n.orelse, env)
        j = TVar()
        a2 = self.flow(a, ta, j, 'conditional expression')
        b2 = self.flow(b, tb, j, 'conditional expression')
        return '(if %s then %s else %s)' % (c, a2, b2), j

    def e_BinOp(self, n, env):
        # [None] * n : n slots that are written later ; [e] * n
        if isinstance(n.op, ast.Mult) and isinstance(n.left, ast.List) and len(n.left.elts) == 1:
            cnt, tc = self.ex(n.right, env)
            cnt = self.need(cnt, tc, 'Z', 'a repetition count')
            e = n.left.elts[0]
            if isinstance(e, ast.Constant) and e.value is None:
                et = TVar()
                self.note('`[None] * n` is a list of n slots that are written later; an unwritten slot is represented '
                          'by the default element of the slot type')
                return self.defer(lambda: '(repeat %s (Z.to_nat %s))' % (dflt_for(et), cnt)), seq(et, True)
            x, et = self.ex(e, env)
            if is_mutable(et):
                raise Unsupported('`[m] * n` with a mutable m (n references to one object)')
            return '(repeat %s (Z.to_nat %s))' % (x, cnt), seq(et, True)
        if not isinstance(n.op, (ast.Add, ast.Mult)):
            raise Unsupported('binary operation %s' % ast.unparse(n)[:60])
        a, ta = self.ex(n.left, env)
        b, tb = self.ex(n.right, env)
        if isinstance(n.op, ast.Add) and kind(ta) == 'seq' and kind(tb) == 'seq':
            unify(res(ta)[1], res(tb)[1], '+')
            return '(%s ++ %s)' % (a, b), seq(res(ta)[1], True)
        unify(ta, self.num(), 'arithmetic')
        unify(ta, tb, 'arithmetic')
        if isinstance(n.op, ast.Add):
            return '(%s %s %s)' % (self.numop(ta, 'Z.add', 'Nat.add'), a, b), ta
        return '(%s %s %s)' % (self.numop(ta, 'Z.mul', 'Nat.mul'), a, b), ta

    def binop_text(self, op, a, ta, b, tb):
        unify(ta, self.num(), 'arithmetic')
        unify(ta, tb, 'arithmetic')
        if isinstance(op, ast.Add):
            return '(%s %s %s)' % (self.numop(ta, 'Z.add', 'Nat.add'), a, b)
        if isinstance(op, ast.Mult):
            return '(%s %s %s)' % (self.numop(ta, 'Z.mul', 'Nat.mul'), a, b)
        raise Unsupported('augmented assignment operator %s' % type(op).__name__)

    # ---- iteration
    def iter_term(self, node, env, what):
        """an iterable expression -> (list term, element type)"""
        if isinstance(node, ast.Call) and isinstance(node.func, ast.Attribute) and not node.args and not node.keywords \
                and node.func.attr in ('items', 'values', 'keys'):
            d, td = self.ex(node.func.value, env)
            td = res(td)
            if kind(td) != 'dict':
                raise Unsupported('.%s() of %s' % (node.func.attr, show(td)))
            if node.func.attr == 'items':
                return d, tup([td[1], td[2]])
            if node.func.attr == 'values':
                return '(map snd %s)' % d, td[2]
            return '(map fst %s)' % d, td[1]
        if isinstance(node, ast.Call) and isinstance(node.func, ast.Name) and node.func.id not in env and not node.keywords:
            f = node.func.id
            if f == 'range' and len(node.args) == 1:
                x, t = self.ex(node.args[0], env)
                x = self.need(x, t, 'Z', 'range()')
                return '(zrange %s)' % x, 'Z'
            if f == 'range' and len(node.args) == 2:
                a, ta = self.ex(node.args[0], env)
                b, tb = self.ex(node.args[1], env)
                return '(zrange2 %s %s)' % (self.need(a, ta, 'Z', 'range()'), self.need(b, tb, 'Z', 'range()')), 'Z'
            if f == 'enumerate' and len(node.args) == 1:
                l, et = self.iter_term(node.args[0], env, 'enumerate')
                return '(py_enumerate %s)' % l, tup(['Z', et])
            if f == 'zip' and len(node.args) == 2:
                l1, t1 = self.iter_term(node.args[0], env, 'zip')
                l2, t2 = self.iter_term(node.args[1], env, 'zip')
                return '(List.combine %s %s)' % (l1, l2), tup([t1, t2])
            if f == 'sorted' and len(node.args) == 1:
                a = node.args[0]
                if isinstance(a, ast.Call) and isinstance(a.func, ast.Attribute) and a.func.attr == 'items' and not a.args \
                        and not a.keywords:
                    d, td = self.ex(a.func.value, env)
                    td = res(td)
                    if kind(td) != 'dict':
                        raise Unsupported('.items() of %s' % show(td))
                    kt = td[1]
                    self.note('sorted(D.items()): the keys of a dict are pairwise distinct, so the items are ordered by '
                              'their keys alone (g_sorted_items)')
                    return self.defer(lambda: '(g_sorted_items %s %s)' % (ltb_for(kt), d)), tup([td[1], td[2]])
                raise Unsupported('sorted(%s)' % ast.unparse(a)[:40])
        x, t = self.ex(node, env)
        t = res(t)
        if kind(t) == 'seq':
            return x, t[1]
        if kind(t) == 'dict':
            return '(map fst %s)' % x, t[1]         # iterating a dict yields its keys
        raise Unsupported('%s over %s' % (what, show(t)))

    def pattern(self, tgt, t, env, what, shadow_ok=True):
        """fresh binders for the target pattern -> (pattern text without the leading quote, is_tuple)"""
        if isinstance(tgt, ast.Name):
            b = env.get(tgt.id)
            if isinstance(b, (FnAlias, Skip)) or (isinstance(b, Val) and b.param):
                raise Unsupported('%s: %s shadows a parameter / routine' % (what, tgt.id))
            v = self.fresh()
            env[tgt.id] = Val(v, t)
            return v, False
        if isinstance(tgt, ast.Tuple) and len(tgt.elts) >= 2:
            ts = [TVar() for _ in tgt.elts]
            unify(t, tup(ts), what)
            parts = [self.pattern(e, x, env, what)[0] for e, x in zip(tgt.elts, ts)]
            txt = parts[0]
            for p in parts[1:]:
                txt = '(%s, %s)' % (txt, p)
            return txt, True
        raise Unsupported('%s: target %s' % (what, ast.unparse(tgt)))

    def binder(self, tgt, t, env, what):
        p, is_t = self.pattern(tgt, t, env, what)
        return ("'" + p) if is_t else p

    def comprehension(self, n, env, elt_fn):
        if len(n.generators) != 1:
            raise Unsupported('comprehension with %d for-clauses' % len(n.generators))
        g = n.generators[0]
        if g.is_async:
            raise Unsupported('async comprehension')
        it, et = self.iter_term(g.iter, env, 'comprehension')
        env2 = dict(env)
        if isinstance(g.target, ast.Name) and g.target.id == '_':
            b = '_'
        else:
            b = self.binder(g.target, et, env2, 'comprehension')
        for c in g.ifs:
            cx = self.cond(c, env2)
            it = '(filter (fun %s => %s) %s)' % (b, cx, it)
        body, bt = elt_fn(env2)
        if body == b and not b.startswith("'"):
            return it, bt         # [x for x in l] / tuple(tuple(x) for x in l): a copy of the values
        return '(map (fun %s => %s) %s)' % (b, body, it), bt

    def fresh_literal(self, e):
        """`[]` / `{}`: a new empty container -> (term, type) or None"""
        if isinstance(e, ast.List) and not e.elts:
            t = seq(TVar(), True)
            return self.nil(t), t
        if isinstance(e, ast.Dict) and not e.keys:
            t = ('dict', TVar(), TVar())
            return self.nil(t), t
        return None

    def elt(self, e, env):
        fl = self.fresh_literal(e)
        if fl is not None:
            return fl
        return self.ex(e, env)

    def e_GeneratorExp(self, n, env):
        term, t = self.comprehension(n, env, lambda e: self.elt(n.elt, e))
        return term, seq(t)

    def e_ListComp(self, n, env):
        term, t = self.comprehension(n, env, lambda e: self.elt(n.elt, e))
        return term, seq(t, True)

    def e_DictComp(self, n, env):
        kt = []

        def elt(e):
            k, tk = self.ex(n.key, e)
            v, tv = self.ex(n.value, e)
            kt.append((tk, tv))
            return '(%s, %s)' % (k, v), tup([tk, tv])
        term, _ = self.comprehension(n, env, elt)
        tk, tv = kt[0]
        return self.defer(lambda: '(g_dict_of %s %s)' % (eqb_for(tk), term)), ('dict', tk, tv)

    def e_Dict(self, n, env):
        if len(n.keys) != 1 or n.keys[0] is None:
            raise Unsupported('dict display %s' % ast.unparse(n)[:60])
        k, tk = self.ex(n.keys[0], env)
        v, tv = self.ex(n.values[0], env)
        if is_mutable(tv):
            raise Unsupported('dict display holding a mutable object')
        return '[(%s, %s)]' % (k, v), ('dict', tk, tv)

    def e_Tuple(self, n, env):
        if any(isinstance(e, ast.Starred) for e in n.elts):
            parts, et = [], TVar()
            for e in n.elts:
                if isinstance(e, ast.Starred):
                    x, t = self.ex(e.value, env)
                    if kind(t) != 'seq':
                        raise Unsupported('starred %s' % show(t))
                    unify(res(t)[1], et, 'sequence display')
                    parts.append(x)
                else:
                    x, t = self.ex(e, env)
                    unify(t, et, 'sequence display')
                    parts.append('[%s]' % x)
            return '(' + ' ++ '.join(parts) + ')', seq(et)
        if len(n.elts) < 2:
            raise Unsupported('tuple display of arity %d' % len(n.elts))
        xs = [self.ex(e, env) for e in n.elts]
        for e, (x, t) in zip(n.elts, xs):
            if is_mutable(t):
                raise Unsupported('tuple display holding the mutable object `%s`' % ast.unparse(e))
        return '(' + ', '.join(x for x, _ in xs) + ')', tup([t for _, t in xs])

    def kwargs(self, n, allowed, what):
        out = {}
        for k in n.keywords:
            if k.arg is None or k.arg not in allowed or k.arg in out:
                raise Unsupported('%s: keyword %r' % (what, k.arg))
            out[k.arg] = k.value
        return out

    def sym_fn(self, f, env):
        """self.symmetry.combine / self.symmetry.sign (directly or through a local alias) -> 'combine' | 'sign' | None"""
        if isinstance(f, ast.Name) and isinstance(env.get(f.id), FnAlias) and env[f.id].what in ('combine', 'sign'):
            return env[f.id].what
        if isinstance(f, ast.Attribute) and f.attr in ('combine', 'sign') and isinstance(f.value, ast.Attribute) \
                and f.value.attr == 'symmetry':
            o, to = self.ex(f.value.value, env)
            unify(to, 'arr', '.symmetry')
            return f.attr
        return None

    def e_Call(self, n, env):
        f = n.func
        sf = self.sym_fn(f, env)
        if sf == 'combine' and not n.keywords:
            if len(n.args) == 1 and isinstance(n.args[0], ast.Starred):
                x, t = self.ex(n.args[0].value, env)
                unify(t, seq('ch'), 'combine(*charges)')
                return '(combine G %s)' % x, 'ch'
            xs = []
            for a in n.args:
                if isinstance(a, ast.Starred):
                    raise Unsupported('combine(.., *x, ..)')
                x, t = self.ex(a, env)
                unify(t, 'ch', 'combine argument')
                xs.append(x)
            return '(combine G [%s])' % '; '.join(xs), 'ch'
        if sf == 'sign' and not n.keywords and len(n.args) == 2:
            c, tc = self.ex(n.args[0], env)
            unify(tc, 'ch', 'sign(charge, dual)')
            d = self.cond(n.args[1], env)
            return '(sign G %s %s)' % (c, d), 'ch'
        if isinstance(f, ast.Name) and isinstance(env.get(f.id), FnAlias):
            return self.dense_call(env[f.id].what, n, env)
        if isinstance(f, ast.Name) and f.id not in env:
            if f.id == 'BlockIndex' and not n.args:
                kw = self.kwargs(n, ('chargemap', 'dual', 'subinfo'), 'BlockIndex')
                if 'chargemap' not in kw or 'dual' not in kw:
                    raise Unsupported('BlockIndex(..) without chargemap / dual')
                cm, tcm = self.ex(kw['chargemap'], env)
                cm = self.need(cm, tcm, ('dict', 'ch', 'nat'), 'the charge table of BlockIndex(..)')
                du = self.cond(kw['dual'], env)
                si = 'None'
                sub = kw.get('subinfo')
                if sub is not None and not (isinstance(sub, ast.Constant) and sub.value is None):
                    if not (isinstance(sub, ast.Call) and isinstance(sub.func, ast.Name) and sub.func.id == 'SubIndexInfo'
                            and 'SubIndexInfo' not in env and not sub.args):
                        raise Unsupported('BlockIndex(subinfo=%s)' % ast.unparse(sub)[:60])
                    kw2 = self.kwargs(sub, ('indices', 'extents'), 'SubIndexInfo')
                    if sorted(kw2) != ['extents', 'indices']:
                        raise Unsupported('SubIndexInfo(..) needs indices= and extents=')
                    ixs, tix = self.ex(kw2['indices'], env)
                    unify(tix, seq('idx'), 'SubIndexInfo(indices=..)')
                    ext, tex = self.ex(kw2['extents'], env)
                    ext = self.need(ext, tex, EXTENTS, 'the extents of SubIndexInfo(..)')
                    si = '(Some (%s, %s))' % (ixs, ext)
                self.note('BlockIndex(chargemap=, dual=, subinfo=SubIndexInfo(indices=, extents=)) is Array.mk_index '
                          '(fixed interface; it sorts the charge table as BlockIndex.__init__ does)')
                return '(mk_index G %s %s %s)' % (cm, du, si), 'idx'
            if n.keywords:
                raise Unsupported('keyword arguments of %s' % f.id)
            if f.id in ('tuple', 'list') and len(n.args) == 1:
                a = n.args[0]
                # tuple(map(tuple, X)): an immutable snapshot of a list of lists (values are copied)
                if isinstance(a, ast.Call) and isinstance(a.func, ast.Name) and a.func.id == 'map' and 'map' not in env \
                        and len(a.args) == 2 and isinstance(a.args[0], ast.Name) and a.args[0].id in ('tuple', 'list') \
                        and a.args[0].id not in env and not a.keywords:
                    x, t = self.ex(a.args[1], env)
                    rt = res(t)
                    if kind(rt) != 'seq' or kind(rt[1]) != 'seq':
                        raise Unsupported('map(%s, %s)' % (a.args[0].id, show(rt)))
                    return x, seq(seq(res(rt[1])[1], f.id == 'list' and False), f.id == 'list')
                if isinstance(a, (ast.GeneratorExp, ast.ListComp)):
                    x, t = self.ex(a, env)
                    return x, seq(res(t)[1], f.id == 'list')
                x, et = self.iter_term(a, env, f.id + '()')
                return x, seq(et, f.id == 'list')
            if f.id == 'len' and len(n.args) == 1:
                x, t = self.ex(n.args[0], env)
                if kind(t) not in ('seq', 'dict'):
                    raise Unsupported('len of %s' % show(t))
                return '(Z.of_nat (length %s))' % x, 'Z'
            if f.id == 'dict' and len(n.args) == 1:
                x, et = self.iter_term(n.args[0], env, 'dict()')
                ret = res(et)
                if kind(ret) != 'tuple' or len(ret[1]) != 2:
                    raise Unsupported('dict() of %s' % show(ret))
                kt = ret[1][0]
                return self.defer(lambda: '(g_dict_of %s %s)' % (eqb_for(kt), x)), ('dict', ret[1][0], ret[1][1])
            if f.id == 'accum_for_split' and len(n.args) == 1:
                x, et = self.iter_term(n.args[0], env, 'accum_for_split()')
                unify(et, 'nat', 'accum_for_split(sizes)')
                self.note('accum_for_split is Helpers.accum_for_split (Gen/Helpers.v); its slices slice(a, b) are the pairs (a, b)')
                return '(map Some (Helpers.accum_for_split (map Z.of_nat %s)))' % x, seq(SLICE)
            if f.id == 'slice' and len(n.args) == 1 and isinstance(n.args[0], ast.Constant) and n.args[0].value is None:
                return 'None', SLICE
            if f.id in ('range', 'enumerate', 'zip', 'sorted'):
                x, et = self.iter_term(n, env, f.id)
                return x, seq(et)
            raise Unsupported('call of %s' % f.id)
        if isinstance(f, ast.Attribute):
            if f.attr in ('items', 'values', 'keys') and not n.args and not n.keywords:
                x, et = self.iter_term(n, env, '.%s()' % f.attr)
                return x, seq(et)
            o, to = self.ex(f.value, env)
            to = res(to)
            if to == 'idx' and f.attr == 'size_of' and len(n.args) == 1 and not n.keywords:
                c, tc = self.ex(n.args[0], env)
                unify(tc, 'ch', 'size_of(charge)')
                return '(size_of G %s %s)' % (o, c), 'nat'
        raise Unsupported('call %s' % ast.unparse(n)[:80])

    def dense_call(self, what, n, env):
        raise Unsupported('call of the dense-block routine %s in this position' % what)

    # -------------------------------------------------------------- statements
    def state_names(self, names, env):
        for x in names:
            if not isinstance(env.get(x), Val) or env[x].param:
                raise Unsupported('%s is changed in a loop / branch but is not a plain local value' % x)

    def tuple_text(self, terms):
        if len(terms) == 1:
            return terms[0]
        return '(' + ', '.join(terms) + ')'

    def out_pattern(self, names, types, env):
        """fresh binders for the joined values of `names` -> (let-pattern, env')"""
        env2 = dict(env)
        vs = []
        for x, t in zip(names, types):
            v = self.fresh()
            env2[x] = Val(v, t)
            vs.append(v)
        if len(vs) == 1:
            return vs[0], env2
        return "'(" + ', '.join(vs) + ')', env2

    def block(self, stmts, env, k):
        if not stmts:
            return k(env)
        s, rest = stmts[0], stmts[1:]

        def go(env2):
            return self.block(rest, env2, k)
        if isinstance(s, ast.Pass) or (isinstance(s, ast.Expr) and isinstance(s.value, ast.Constant)
                                       and isinstance(s.value.value, str)):
            return go(env)
        if isinstance(s, ast.Return):
            if rest:
                raise Unsupported('statements after return')
            if self.depth:
                raise Unsupported('return inside a loop / branch')
            return self.do_return(s, env)
        if isinstance(s, ast.Assign):
            return self.do_assign(s, env, go)
        if isinstance(s, ast.AugAssign):
            return self.do_augassign(s, env, go)
        if isinstance(s, ast.Expr):
            return self.do_method(s, env, go)
        if isinstance(s, ast.For):
            return self.do_for(s, env, go)
        if isinstance(s, ast.If):
            return self.do_if(s, env, go)
        if isinstance(s, ast.Try):
            return self.do_try(s, env, go)
        raise Unsupported('statement %s' % ast.unparse(s)[:80])

    def do_return(self, s, env):
        v = s.value
        if isinstance(v, ast.Tuple) and len(v.elts) >= 2 and not any(isinstance(e, ast.Starred) for e in v.elts):
            # the results are handed over to the caller: local containers may be among them
            xs = [self.ex(e, env) for e in v.elts]
            self.ret = tup([frozen(t) for _, t in xs])
            return '(' + ', '.join(x for x, _ in xs) + ')'
        x, t = self.ex(v, env)
        self.ret = t
        return x

    def bind(self, name, term, t, env):
        b = env.get(name)
        if isinstance(b, (FnAlias, Skip)) or (isinstance(b, Val) and b.param):
            raise Unsupported('assignment to the parameter / routine %s' % name)
        v = self.fresh()
        env2 = dict(env)
        env2[name] = Val(v, t)
        return (lambda body: 'let %s := %s in\n%s' % (v, term, body)), env2

    def do_assign(self, s, env, go):
        if len(s.targets) != 1:
            raise Unsupported('multi-target assignment')
        tgt, v = s.targets[0], s.value
        # ---- (a, b, ...) = calc_fuse_group_info(axes_groups, self.duals): the generated projections of Gen/Helpers.v
        if isinstance(v, ast.Call) and isinstance(v.func, ast.Name) and v.func.id == 'calc_fuse_group_info' \
                and 'calc_fuse_group_info' not in env:
            if v.keywords or len(v.args) != 2 or not isinstance(tgt, ast.Tuple) \
                    or not all(isinstance(e, ast.Name) for e in tgt.elts) or len(tgt.elts) != len(self.cfgi_names):
                raise Unsupported('call of calc_fuse_group_info: %s' % ast.unparse(s)[:80])
            g, tg = self.ex(v.args[0], env)
            unify(tg, seq(seq('Z')), 'axes_groups')
            d, td = self.ex(v.args[1], env)
            unify(td, seq('bool'), 'duals')
            env2 = dict(env)
            for e, nm in zip(tgt.elts, self.cfgi_names):
                b = env.get(e.id)
                if b is not None:
                    raise Unsupported('unpacking calc_fuse_group_info into the existing name %s' % e.id)
                env2[e.id] = Val('(Helpers.cfgi_%s %s %s)' % (nm, g, d), CFGI_TYPES[nm])
            self.note('calc_fuse_group_info is not re-translated: its i-th result is Helpers.cfgi_<name> of Gen/Helpers.v')
            return go(env2)
        if isinstance(tgt, ast.Name):
            if self.sym_fn(v, env) is not None and not isinstance(v, ast.Name):
                env2 = dict(env)
                if isinstance(env.get(tgt.id), Val):
                    raise Unsupported('assignment of a routine to the variable %s' % tgt.id)
                env2[tgt.id] = FnAlias(self.sym_fn(v, env))
                return go(env2)
            fl = self.fresh_literal(v)
            if fl is not None:
                w, env2 = self.bind(tgt.id, fl[0], fl[1], env)
                return w(go(env2))
            if isinstance(v, ast.Name) and isinstance(env.get(v.id), Val) and is_mutable(env[v.id].t):
                raise Unsupported('`%s = %s` makes a second name for a mutable object' % (tgt.id, v.id))
            x, t = self.ex(v, env)
            w, env2 = self.bind(tgt.id, x, t, env)
            return w(go(env2))
        if isinstance(tgt, ast.Tuple):
            for nm in target_names(tgt):
                b = env.get(nm)
                if isinstance(b, (FnAlias, Skip)) or (isinstance(b, Val) and b.param):
                    raise Unsupported('assignment to the parameter / routine %s' % nm)
            if isinstance(v, ast.Tuple) and len(v.elts) == len(tgt.elts) and all(isinstance(e, ast.Name) for e in tgt.elts) \
                    and not any(isinstance(e, ast.Starred) for e in v.elts):
                vals = []
                for e in v.elts:
                    if isinstance(e, ast.Name) and isinstance(env.get(e.id), Val) and is_mutable(env[e.id].t):
                        raise Unsupported('tuple assignment makes a second name for the mutable object %s' % e.id)
                    vals.append(self.ex(e, env))
                wraps, env2 = [], env
                for nm, (x, t) in zip(tgt.elts, vals):
                    w, env2 = self.bind(nm.id, x, t, env2)
                    wraps.append(w)
                body = go(env2)
                for w in reversed(wraps):
                    body = w(body)
                return body
            x, t = self.ex(v, env)
            if is_mutable(t):
                raise Unsupported('unpacking a value holding mutable objects')
            env2 = dict(env)
            b = self.binder(tgt, t, env2, 'unpacking assignment')
            return 'let %s := %s in\n%s' % (b, x, go(env2))
        if isinstance(tgt, ast.Subscript) and not isinstance(tgt.slice, ast.Slice):
            x, t, moved = self.stored_value(v, env)

            def leaf(old, ct):
                rc = res(ct)
                if kind(rc) == 'seq':
                    if not rc[2]:
                        raise Unsupported('item assignment into an immutable sequence')
                    i = self.index(tgt.slice, env, 'a list index')
                    val = self.flow(x, t, rc[1], 'list item')
                    return '(g_lupd %s %s (fun _ => %s))' % (old, i, val)
                if kind(rc) == 'dict':
                    kx, tk = self.ex(tgt.slice, env)
                    unify(tk, rc[1], 'dict key')
                    kt = rc[1]
                    val = self.flow(x, t, rc[2], 'dict value')
                    return self.defer(lambda: '(dset %s %s %s %s)' % (eqb_for(kt), kx, val, old))
                raise Unsupported('item assignment into %s' % show(rc))
            name, new, nt = self.upd(tgt.value, env, leaf)
            w, env2 = self.bind(name, new, nt, env)
            for m in moved:
                env2.pop(m, None)
            return w(go(env2))
        raise Unsupported('assignment %s' % ast.unparse(s)[:80])

    def stored_value(self, v, env):
        """a value that is stored into a container -> (term, type, names that are moved)"""
        fl = self.fresh_literal(v)
        if fl is not None:
            return fl[0], fl[1], []
        if isinstance(v, ast.Name) and isinstance(env.get(v.id), Val) and is_mutable(env[v.id].t):
            b = env[v.id]
            if b.param:
                raise Unsupported('storing the mutable parameter %s into a container' % v.id)
            self.note('a local container stored into another container is not used under its own name afterwards '
                      '(checked: the name becomes unusable)')
            return b.term, b.t, [v.id]
        x, t = self.ex(v, env)
        if is_mutable(t) and not isinstance(v, (ast.Dict, ast.ListComp, ast.DictComp, ast.Call)):
            raise Unsupported('storing the mutable object `%s` into a container' % ast.unparse(v)[:40])
        return x, t, []

    def upd(self, node, env, mk):
        """rebuild the local container reached by `node` (a name or name[i][k]..) with mk(old_term, type) in place of
        the object `node` denotes -> (root name, new root term, root type)"""
        if isinstance(node, ast.Name):
            b = env.get(node.id)
            if not isinstance(b, Val) or b.param:
                raise Unsupported('in-place update of %s, which is not a local container' % node.id)
            return node.id, mk(b.term, b.t), b.t
        if isinstance(node, ast.Subscript) and not isinstance(node.slice, ast.Slice):
            def outer(old, ct):
                rc = res(ct)
                v = self.fresh()
                if kind(rc) == 'seq':
                    if not rc[2]:
                        raise Unsupported('in-place update inside an immutable sequence')
                    i = self.index(node.slice, env, 'a list index')
                    return '(g_lupd %s %s (fun %s => %s))' % (old, i, v, mk(v, rc[1]))
                if kind(rc) == 'dict':
                    kx, tk = self.ex(node.slice, env)
                    unify(tk, rc[1], 'dict key')
                    kt = rc[1]
                    inner = mk(v, rc[2])
                    self.note('d[k].. updated in place: KeyError of an absent key is not modelled (g_dupd leaves d unchanged)')
                    return self.defer(lambda: '(g_dupd %s %s (fun %s => %s) %s)' % (eqb_for(kt), kx, v, inner, old))
                raise Unsupported('in-place update inside %s' % show(rc))
            return self.upd(node.value, env, outer)
        raise Unsupported('in-place update of %s' % ast.unparse(node)[:60])

    def do_augassign(self, s, env, go):
        x, t = self.ex(s.value, env)
        if isinstance(s.target, ast.Name):
            b = env.get(s.target.id)
            if not isinstance(b, Val) or b.param:
                raise Unsupported('augmented assignment to %s' % s.target.id)
            w, env2 = self.bind(s.target.id, self.binop_text(s.op, b.term, b.t, x, t), b.t, env)
            return w(go(env2))
        if isinstance(s.target, ast.Subscript) and not isinstance(s.target.slice, ast.Slice):
            def mk(old, ct):
                return self.binop_text(s.op, old, ct, x, t)
            name, new, nt = self.upd(s.target, env, mk)
            w, env2 = self.bind(name, new, nt, env)
            return w(go(env2))
        raise Unsupported('augmented assignment %s' % ast.unparse(s)[:60])

    def do_method(self, s, env, go):
        c = s.value
        if not (isinstance(c, ast.Call) and isinstance(c.func, ast.Attribute) and not c.keywords):
            raise Unsupported('statement %s' % ast.unparse(s)[:80])
        meth, obj = c.func.attr, c.func.value
        if meth == 'append' and len(c.args) == 1:
            x, t, moved = self.stored_value(c.args[0], env)

            def mk(old, ct):
                rc = res(ct)
                if kind(rc) != 'seq' or not rc[2]:
                    raise Unsupported('.append on %s' % show(rc))
                return '(%s ++ [%s])' % (old, self.flow(x, t, rc[1], 'append'))
        elif meth == 'clear' and not c.args:
            moved = []

            def mk(old, ct):
                rc = res(ct)
                if kind(rc) not in ('seq', 'dict') or (kind(rc) == 'seq' and not rc[2]):
                    raise Unsupported('.clear on %s' % show(rc))
                return self.nil(ct)
        else:
            raise Unsupported('statement %s' % ast.unparse(s)[:80])
        name, new, nt = self.upd(obj, env, mk)
        w, env2 = self.bind(name, new, nt, env)
        for m in moved:
            env2.pop(m, None)
        return w(go(env2))

    # ---- joins
    def branches(self, env, names, runs, go):
        """runs: list of functions k -> text, each compiling one branch with continuation k;
        the values of `names` at the end of every branch are joined -> (list of branch texts, pattern, env')"""
        slots = [TVar() for _ in names]
        texts, ends = [], []
        for i, run in enumerate(runs):
            self.nbranch += 1
            marker = '\x01BR%d\x01' % self.nbranch
            got = {}

            def k(e, got=got, marker=marker):
                if 'env' in got:
                    raise Unsupported('a branch that ends in two places')
                got['env'] = e
                return marker
            self.depth += 1
            text = run(k)
            self.depth -= 1
            if 'env' not in got:
                raise Unsupported('a branch that does not fall through')
            texts.append((text, marker))
            ends.append(got['env'])
        out = []
        for (text, marker), e in zip(texts, ends):
            terms = []
            for x, sl in zip(names, slots):
                b = e.get(x)
                if not isinstance(b, Val):
                    raise Unsupported('%s is not a plain value at the end of a branch' % x)
                terms.append(self.flow(b.term, b.t, sl, 'the value of %s after a branch' % x))
            out.append(text.replace(marker, self.tuple_text(terms)))
        # names that were moved (stored into a container) in some branch are unusable afterwards
        env0 = dict(env)
        for e in ends:
            for x in list(env0):
                if x not in e and isinstance(env0[x], Val) and not env0[x].param and x not in names:
                    env0.pop(x)
        pat, env2 = self.out_pattern(names, slots, env0)
        return out, pat, env2

    def refine_test(self, test, env):
        """`x is None` / `x is not None` on an optional local -> (name, none_first) else None"""
        if isinstance(test, ast.Compare) and len(test.ops) == 1 and isinstance(test.ops[0], (ast.Is, ast.IsNot)) \
                and isinstance(test.left, ast.Name) and isinstance(test.comparators[0], ast.Constant) \
                and test.comparators[0].value is None and isinstance(env.get(test.left.id), Val):
            return test.left.id, isinstance(test.ops[0], ast.Is)
        return None

    def do_if(self, s, env, go):
        mut = list(dict.fromkeys(self.mutated(s.body) + self.mutated(s.orelse)))
        both = [x for x in self.definitely(s.body) if x in self.definitely(s.orelse)]
        names = [x for x in mut if isinstance(env.get(x), Val) or (x in both and x not in env)]
        if not names:
            raise Unsupported('an `if` that changes nothing that is visible after it')
        for x in names:
            if x in env:
                self.state_names([x], env)
        rt = self.refine_test(s.test, env)
        if rt is not None:
            nm, none_first = rt
            b = env[nm]
            inner = TVar()
            unify(b.t, opt(inner), '`is None`')
            v = self.fresh()
            env_some = dict(env)
            env_some[nm] = Val(v, inner)
            none_body, some_body = (s.body, s.orelse) if none_first else (s.orelse, s.body)
            outs, pat, env2 = self.branches(env, names, [
                lambda k: self.block(none_body, dict(env), k),
                lambda k: self.block(some_body, env_some, lambda e: k(self.unrefine(e, nm, b, v)))], go)
            # the name keeps its optional value after the statement unless a branch re-assigned it
            return 'let %s := (match %s with\n  | None =>\n%s\n  | Some %s =>\n%s\n  end) in\n%s' % (
                pat, b.term, ind(outs[0], 4), v, ind(outs[1], 4), go(env2))
        c = self.cond(s.test, env)
        outs, pat, env2 = self.branches(env, names, [
            lambda k: self.block(s.body, dict(env), k),
            lambda k: self.block(s.orelse, dict(env), k)], go)
        return 'let %s := (if %s then\n%s\nelse\n%s) in\n%s' % (pat, c, ind(outs[0]), ind(outs[1]), go(env2))

    @staticmethod
    def unrefine(e, nm, b, v):
        """at the end of the `Some` branch: if the name still denotes the unwrapped value, it denotes the optional
        one again (so that the joined type is the optional type)"""
        cur = e.get(nm)
        if isinstance(cur, Val) and cur.term == v:
            e = dict(e)
            e[nm] = b
        return e

    def do_try(self, s, env, go):
        """try: <names> = D[k]   except KeyError: <handler binding the same names>"""
        if s.orelse or s.finalbody or len(s.handlers) != 1 or len(s.body) != 1:
            raise Unsupported('try statement of this shape')
        h = s.handlers[0]
        if h.name is not None or not (isinstance(h.type, ast.Name) and h.type.id == 'KeyError' and 'KeyError' not in env):
            raise Unsupported('except clause %s' % (ast.unparse(h.type) if h.type else '(bare)'))
        st0 = s.body[0]
        if not (isinstance(st0, ast.Assign) and len(st0.targets) == 1 and isinstance(st0.targets[0], (ast.Name, ast.Tuple))
                and isinstance(st0.value, ast.Subscript) and isinstance(st0.value.value, ast.Name)
                and not isinstance(st0.value.slice, ast.Slice)):
            raise Unsupported('try body %s' % ast.unparse(st0)[:80])
        dname = st0.value.value.id
        d = env.get(dname)
        if not isinstance(d, Val) or d.param or kind(d.t) != 'dict':
            raise Unsupported('KeyError handler around a read of %s' % dname)
        dt = res(d.t)
        if is_mutable(dt[2]):
            raise Unsupported('try body reads a mutable object out of %s' % dname)
        kx, tk = self.ex(st0.value.slice, env)
        unify(tk, dt[1], 'dict key')
        xs = target_names(st0.targets[0])
        hdef = self.definitely(h.body)
        for x in xs:
            if x not in hdef:
                raise Unsupported('the KeyError handler does not bind %s on every path' % x)
        names = xs + [x for x in self.mutated(h.body) if x not in xs and isinstance(env.get(x), Val)]
        for x in names:
            if x in env:
                self.state_names([x], env)
        v = self.fresh()
        env_found = dict(env)
        pat = self.binder(st0.targets[0], dt[2], env_found, 'try body')
        kt = dt[1]
        outs, opat, env2 = self.branches(env, names, [
            lambda k: 'let %s := %s in\n%s' % (pat, v, k(env_found)),
            lambda k: self.block(h.body, dict(env), k)], go)
        head = self.defer(lambda: 'lookup %s %s %s' % (eqb_for(kt), kx, d.term))
        return 'let %s := (match %s with\n  | Some %s =>\n%s\n  | None =>\n%s\n  end) in\n%s' % (
            opat, head, v, ind(outs[0], 4), ind(outs[1], 4), go(env2))

    def do_for(self, s, env, go):
        if s.orelse:
            raise Unsupported('for ... else')
        for x in ast.walk(s):
            if isinstance(x, (ast.Break, ast.Continue, ast.Return)):
                raise Unsupported('break / continue / return inside a for loop')
        mut = self.mutated(s.body)
        tnames = target_names(s.target)
        clash = names_used(s.iter) & (set(mut) | set(tnames))
        if clash:
            raise Unsupported('the body of a for loop changes %s, which its iterable reads' % sorted(clash))
        iter_term, et = self.iter_term(s.iter, env, 'for')
        state = [x for x in mut if x in env and x not in tnames]
        for x in state:
            self.state_names([x], env)
        if not state:
            raise Unsupported('a for loop that changes nothing that exists before it')
        envb = dict(env)
        vs = []
        for x in state:
            v = self.fresh()
            envb[x] = Val(v, env[x].t)
            vs.append(v)
        spat = vs[0] if len(vs) == 1 else "'(" + ', '.join(vs) + ')'
        for x in tnames:
            envb.pop(x, None)
        tpat = self.binder(s.target, et, envb, 'for')

        def kb(e):
            terms = []
            for x in state:
                b = e.get(x)
                if not isinstance(b, Val):
                    raise Unsupported('%s is not a plain value at the end of the loop body' % x)
                unify(b.t, env[x].t, 'the type of %s around a loop' % x)
                terms.append(b.term)
            return self.tuple_text(terms)
        self.depth += 1
        fb = self.block(s.body, envb, kb)
        self.depth -= 1
        env0 = dict(env)
        for x in tnames:
            # Python leaves the last element bound; not modelled -> the name is unusable afterwards
            env0.pop(x, None)
        opat, env2 = self.out_pattern(state, [env[x].t for x in state], env0)
        init = self.tuple_text([env[x].term for x in state])
        return 'let %s := (fold_left (fun %s %s =>\n%s) %s %s) in\n%s' % (opat, spat, tpat, ind(fb, 4), iter_term, init, go(env2))

    # ---------------------------------------------------------------- function
    def function(self, fdef, params):
        """params: list of (expected position kind): ('val', coq name, type) | ('fn', what) | ('skip', what)"""
        a = fdef.args
        if a.posonlyargs or a.kwonlyargs or a.vararg or a.kwarg or a.kw_defaults or a.defaults:
            raise Unsupported('%s: parameter list' % fdef.name)
        if len(a.args) != len(params):
            raise Unsupported('%s: %d parameters, expected %d' % (fdef.name, len(a.args), len(params)))
        for x in ast.walk(fdef):
            if isinstance(x, (ast.FunctionDef, ast.Lambda, ast.ClassDef, ast.Global, ast.Nonlocal, ast.With, ast.While,
                              ast.Yield, ast.YieldFrom, ast.Await, ast.NamedExpr, ast.Delete, ast.Raise,
                              ast.Assert)) and x is not fdef:
                raise Unsupported('%s: %s' % (fdef.name, type(x).__name__))
        if fdef.decorator_list:
            raise Unsupported('%s: decorators' % fdef.name)
        for x in ast.walk(fdef):
            if isinstance(x, ast.For):
                body = self.without_continue(list(x.body))
                if len(body) != len(x.body) or any(a is not b for a, b in zip(body, x.body)):
                    self.note('`if c: continue` at the top level of a loop body is `if not c: <rest of the body>`')
                    x.body = body
        env = {}
        for arg, p in zip(a.args, params):
            if p[0] == 'val':
                env[arg.arg] = Val(p[1], p[2], param=True)
            elif p[0] == 'fn':
                env[arg.arg] = FnAlias(p[1])
            else:
                env[arg.arg] = Skip(p[1])
        if not fdef.body or not isinstance(fdef.body[-1], ast.Return):
            raise Unsupported('%s does not end in a return' % fdef.name)
        self.mutated(fdef.body)

        def fall(e):
            raise Unsupported('%s may fall off its end' % fdef.name)
        text = self.block(fdef.body, env, fall)
        if self.ret is None:
            raise Unsupported('%s: no return reached' % fdef.name)
        text = self.finish(text)
        if '\x01' in text:
            raise Unsupported('%s: internal: unresolved branch marker' % fdef.name)
        return text, self.ret


def conv(t):
    """pygallina type notation (tr/gen_helpers.py) -> the notation of this file"""
    if t == 'Z' or t == 'bool':
        return t
    if t[0] == 'list':
        return seq(conv(t[1]))
    if t[0] == 'opt':
        return opt(conv(t[1]))
    if t[0] == 'dict':
        return ('dict', conv(t[1]), conv(t[2]))
    raise Unsupported('type %r of a result of calc_fuse_group_info' % (t,))


CFGI_TYPES = {k: conv(v) for k, v in gen_helpers.CFGI_RESULT_TYPES.items()}


def find(tree, name):
    found = [n for n in tree.body if isinstance(n, ast.FunctionDef) and n.name == name]
    if len(found) != 1:
        raise Unsupported('function %s not found exactly once' % name)
    return found[0]


def cfgi_return_names(tree):
    f = find(tree, 'calc_fuse_group_info')
    rets = [s for s in ast.walk(f) if isinstance(s, ast.Return)]
    if len(rets) != 1 or not isinstance(rets[0].value, ast.Tuple) or \
            not all(isinstance(e, ast.Name) for e in rets[0].value.elts):
        raise Unsupported('calc_fuse_group_info: return is not one tuple of plain names')
    names = [e.id for e in rets[0].value.elts]
    if sorted(names) != sorted(CFGI_TYPES):
        raise Unsupported('calc_fuse_group_info returns %r, expected the names %r' % (names, sorted(CFGI_TYPES)))
    return names


# ------------------------------------------------------------------ _fuse_blocks_via_insert
class InsertComp(Comp):
    """adds the dense-block statements of `_fuse_blocks_via_insert`"""

    def dense_call(self, what, n, env):
        if what == 'transpose' and len(n.args) == 2 and not n.keywords:
            x, tx = self.ex(n.args[0], env)
            unify(tx, 'ten', '_transpose operand')
            p, tp = self.ex(n.args[1], env)
            unify(tp, seq('Z'), '_transpose axes')
            return '(ttranspose R %s (map Z.to_nat %s))' % (x, p), 'ten'
        if what == 'reshape' and len(n.args) == 2 and not n.keywords:
            x, tx = self.ex(n.args[0], env)
            unify(tx, 'ten', '_reshape operand')
            p, tp = self.ex(n.args[1], env)
            unify(tp, seq('nat'), '_reshape shape')
            return '(treshape R %s %s)' % (x, p), 'ten'
        if what == 'zeros' and len(n.args) == 1 and len(n.keywords) == 1 and n.keywords[0].arg is None \
                and isinstance(n.keywords[0].value, ast.Name) and isinstance(env.get(n.keywords[0].value.id), Skip):
            p, tp = self.ex(n.args[0], env)
            unify(tp, seq('nat'), '_zeros shape')
            return '(tzeros R %s)' % p, 'ten'
        raise Unsupported('call %s' % ast.unparse(n)[:80])

    def block(self, stmts, env, k):
        # try: B = D[key]  except KeyError: <...>; B = D[key] = <fresh block>     followed by     B[tuple(sel)] = a
        # : the block stored under D[key] is updated in place (B is a second name for it)
        if len(stmts) >= 2 and isinstance(stmts[0], (ast.Try, ast.If)):
            got = self.inplace_block_idiom(stmts[0], stmts[1], env)
            if got is not None:
                dname, key_node, init_stmts, init_value, sel_node, src_node = got
                d = env[dname]
                dt = res(d.t)
                kx, tk = self.ex(key_node, env)
                unify(tk, dt[1], 'dict key')
                unify(dt[2], 'ten', 'a dict of dense blocks')
                kt = dt[1]

                def kh(e):
                    x, t = self.ex(init_value, e)
                    unify(t, 'ten', 'the new fused block')
                    return x
                self.depth += 1
                init = self.block(init_stmts, dict(env), kh)
                self.depth -= 1
                sel, ts = self.ex(sel_node, env)
                unify(ts, seq(SLICE), 'the selector')
                src, tsrc = self.ex(src_node, env)
                unify(tsrc, 'ten', 'the inserted block')
                tgt = self.fresh()
                self.note('`try: B = D[k] except KeyError: B = D[k] = <zeros>` (or the if/else form) followed by `B[tuple(selector)] = a`: the '
                          'block stored under D[k] is updated in place = tassign, then stored under D[k]')
                new = self.defer(lambda: (
                    'let %s := (match lookup %s %s %s with\n  | Some b => b\n  | None =>\n%s\n  end) in\n'
                    '(dset %s %s (tassign R %s (map (fun p => g_slice_range (fst p) (snd p)) (List.combine (tshape %s) %s)) %s) %s)'
                    % (tgt, eqb_for(kt), kx, d.term, ind(init, 4), eqb_for(kt), kx, tgt, tgt, sel, src, d.term)))
                w, env2 = self.bind(dname, '(' + new + ')', d.t, env)
                return w(self.block(stmts[2:], env2, k))
        return Comp.block(self, stmts, env, k)

    def inplace_block_idiom(self, t, nxt, env):
        """try: B = D[k] except KeyError: <init>; B = D[k] = <block>       or
           if k in D: B = D[k] else: <init>; B = <block>; D[k] = B         followed by   B[tuple(sel)] = src"""
        if isinstance(t, ast.Try):
            if t.orelse or t.finalbody or len(t.handlers) != 1 or len(t.body) != 1:
                return None
            h = t.handlers[0]
            if h.name is not None or not (isinstance(h.type, ast.Name) and h.type.id == 'KeyError' and 'KeyError' not in env):
                return None
            b0, hb, test = t.body[0], h.body, None
        elif isinstance(t, ast.If):
            if len(t.body) != 1 or not t.orelse:
                return None
            b0, hb, test = t.body[0], t.orelse, t.test
        else:
            return None
        if not (isinstance(b0, ast.Assign) and len(b0.targets) == 1 and isinstance(b0.targets[0], ast.Name)
                and isinstance(b0.value, ast.Subscript) and isinstance(b0.value.value, ast.Name)):
            return None
        bname, dname, key = b0.targets[0].id, b0.value.value.id, b0.value.slice
        d = env.get(dname)
        if not isinstance(d, Val) or d.param or kind(d.t) != 'dict' or bname in env:
            return None
        if test is not None and not (isinstance(test, ast.Compare) and len(test.ops) == 1 and isinstance(test.ops[0], ast.In)
                                     and ast.dump(test.left) == ast.dump(key) and isinstance(test.comparators[0], ast.Name)
                                     and test.comparators[0].id == dname):
            return None
        if not hb:
            return None

        def is_store(x, value_is):
            return (isinstance(x, ast.Subscript) and ast.dump(x.value) == ast.dump(b0.value.value)
                    and ast.dump(x.slice) == ast.dump(key))
        last = hb[-1]
        if isinstance(last, ast.Assign) and len(last.targets) == 2 and isinstance(last.targets[0], ast.Name) \
                and last.targets[0].id == bname and is_store(last.targets[1], None):
            init, value = hb[:-1], last.value                      # B = D[key] = value
        elif len(hb) >= 2 and isinstance(last, ast.Assign) and len(last.targets) == 1 and is_store(last.targets[0], None) \
                and isinstance(last.value, ast.Name) and last.value.id == bname \
                and isinstance(hb[-2], ast.Assign) and len(hb[-2].targets) == 1 and isinstance(hb[-2].targets[0], ast.Name) \
                and hb[-2].targets[0].id == bname:
            init, value = hb[:-2], hb[-2].value                    # B = value ; D[key] = B
        else:
            return None
        if any(x in env for x in self.mutated(init)) or bname in self.mutated(init):
            raise Unsupported('the branch that creates the block changes outer state besides creating it')
        # B[tuple(sel)] = src
        if not (isinstance(nxt, ast.Assign) and len(nxt.targets) == 1 and isinstance(nxt.targets[0], ast.Subscript)
                and isinstance(nxt.targets[0].value, ast.Name) and nxt.targets[0].value.id == bname):
            return None
        sl = nxt.targets[0].slice
        if not (isinstance(sl, ast.Call) and isinstance(sl.func, ast.Name) and sl.func.id == 'tuple' and len(sl.args) == 1
                and not sl.keywords):
            return None
        return dname, key, init, value, sl.args[0], nxt.value


# ------------------------------------------------------------------ driver
def generate(repo):
    src = open(os.path.join(repo, 'symmray', 'abelian_core.py')).read()
    tree = ast.parse(src)
    out = [HEADER]
    notes = []
    TVar.n = 0
    cfgi_names = cfgi_return_names(tree)

    # ---- calc_fuse_block_info(self, axes_groups)
    c = Comp(cfgi_names)
    body, rt = c.function(find(tree, 'calc_fuse_block_info'),
                          [('val', 'self', 'arr'), ('val', 'axes_groups', seq(seq('Z')))])
    rt = res(rt)
    if kind(rt) != 'tuple' or len(rt[1]) != len(CFBI_ROLES):
        raise Unsupported('calc_fuse_block_info returns %s, expected a tuple of %d results' % (show(rt), len(CFBI_ROLES)))
    out.append('  Definition gen_calc_fuse_block_info (self : aarray G R) (axes_groups : list (list Z))\n'
               '    : %s :=\n%s.\n\n' % (ty_str(rt), ind(body, 4)))
    pat = "'(" + ', '.join('r_' + n for n in CFBI_ROLES) + ')'
    for n, t in zip(CFBI_ROLES, rt[1]):
        out.append('  Definition cfbi_%s (self : aarray G R) (axes_groups : list (list Z)) : %s :=\n'
                   '    let %s := gen_calc_fuse_block_info self axes_groups in r_%s.\n\n' % (n, ty_str(t), pat, n))
    notes += ['calc_fuse_block_info: ' + x for x in c.notes]
    bm_t = rt[1][CFBI_ROLES.index('blockmap')]
    ni_t = rt[1][CFBI_ROLES.index('new_indices')]

    # ---- _fuse_blocks_via_insert(blocks, num_groups, group_singlets, perm, position, new_indices, blockmap, ...)
    c = InsertComp(cfgi_names)
    body, rt2 = c.function(find(tree, '_fuse_blocks_via_insert'), [
        ('val', 'blocks', ('dict', SEC, 'ten')), ('val', 'num_groups', 'Z'), ('val', 'group_singlets', seq('Z')),
        ('val', 'perm', seq('Z')), ('val', 'position', 'Z'), ('val', 'new_indices', ni_t), ('val', 'blockmap', bm_t),
        ('fn', 'transpose'), ('fn', 'reshape'), ('fn', 'zeros'), ('skip', 'zeros_kwargs')])
    unify(rt2, ('dict', SEC, 'ten'), 'the result of _fuse_blocks_via_insert')
    out.append('  Definition gen_fuse_blocks_via_insert (blocks : list (list (C G) * tensor R)) (num_groups : Z)\n'
               '      (group_singlets perm : list Z) (position : Z) (new_indices : %s)\n'
               '      (blockmap : %s)\n    : list (list (C G) * tensor R) :=\n%s.\n\n'
               % (ty_str(ni_t), ty_str(bm_t), ind(body, 4)))
    notes += ['_fuse_blocks_via_insert: ' + x for x in c.notes]

    out.append(FOOTER)
    out.append('\n(* translator notes:\n' + '\n'.join('   ' + x for x in notes) + '\n*)\n')
    return ''.join(out)


def generate_all(repo):
    return {'FuseGen.v': generate(repo)}


if __name__ == '__main__':
    repo = os.environ.get('SYMMRAY_REPO', '/repo')
    outdir = sys.argv[1] if len(sys.argv) > 1 else os.path.join(os.path.dirname(__file__), '..', 'coq', 'Gen')
    text = generate(repo)
    path = os.path.join(outdir, 'FuseGen.v')
    old = open(path).read() if os.path.exists(path) else None
    if old != text:
        with open(path, 'w') as fh:
            fh.write(text)
