"""Fail-closed translator from a small pure subset of Python (as `ast`) to
Gallina text.  Anything outside the subset raises `Unsupported`, which the
check treats as a broken tie (never silently skipped).

Types:  'Z' | 'bool' | ('pair', t1, t2) | ('list', t) | ('opt', t) | ('set', t)
        | ('var', 'A')  (a type variable bound by the enclosing Section)
        | ('dict', tk, tv)  (insertion-ordered association list, Prelude.lookup/dset)
        | ('tuple', [t1, ..., tn])  n >= 3  (Coq product t1 * ... * tn)
        | 'none'  (the constant None before it is coerced into an option)
Python ints are unbounded => Z; `%` / `//` are floor => Z.modulo / Z.div
(identical conventions).  A Python int used as a condition means `!= 0`.
"""
import ast


class Unsupported(Exception):
    pass


def ty_str(t):
    if t == 'Z':
        return 'Z'
    if t == 'bool':
        return 'bool'
    if t[0] == 'pair':
        return '(%s * %s)' % (ty_str(t[1]), ty_str(t[2]))
    if t[0] in ('list', 'set'):
        return '(list %s)' % ty_str(t[1])
    if t[0] == 'opt':
        return '(option %s)' % ty_str(t[1])
    if t[0] == 'var':
        return t[1]
    if t[0] == 'dict':
        return '(list (%s * %s))' % (ty_str(t[1]), ty_str(t[2]))
    if t[0] == 'tuple':
        return '(' + ' * '.join(ty_str(x) for x in t[1]) + ')'
    raise Unsupported('type %r' % (t,))


def eqb_for(t):
    if t == 'Z':
        return 'Z.eqb'
    if t == 'bool':
        return 'Bool.eqb'
    if t[0] == 'pair':
        return '(pair_eqb %s %s)' % (eqb_for(t[1]), eqb_for(t[2]))
    if t[0] in ('list', 'set'):
        return '(list_eqb %s)' % eqb_for(t[1])
    raise Unsupported('eqb for %r' % (t,))


def default_for(t, defaults=None):
    """the value a total Gallina function returns where Python would raise
    (IndexError / KeyError); never reached on the inputs the theorems cover"""
    if t == 'Z':
        return '0%Z'
    if t == 'bool':
        return 'false'
    if t[0] == 'pair':
        return '(%s, %s)' % (default_for(t[1], defaults), default_for(t[2], defaults))
    if t[0] in ('list', 'set', 'dict'):
        return '[]'
    if t[0] == 'opt':
        return 'None'
    if t[0] == 'var' and defaults and t[1] in defaults:
        return defaults[t[1]]
    if t[0] == 'tuple':
        return '(' + ', '.join(default_for(x, defaults) for x in t[1]) + ')'
    raise Unsupported('default for %r' % (t,))


class Fn:
    def __init__(self, name, params, ret, coqname=None):
        self.name = name
        self.params = params  # list of (pyname, type)
        self.ret = ret
        self.coqname = coqname or name


class Translator:
    def __init__(self, funcs=None, notes=None, local_types=None, defaults=None, pyindex=False):
        # funcs: python name -> Fn (already translated helper functions)
        self.funcs = dict(funcs or {})
        self.notes = notes if notes is not None else []
        self.counter = 0
        # local_types: python local name -> type, consulted only where a local is
        #   initialised by an empty literal (`x = []`, `d = {}`) whose type cannot be read off
        # defaults: type variable -> Gallina term of that type (default element)
        # pyindex: list indexing `l[i]` as Python does (negative i from the end, PyList.py_nth)
        #   instead of Prelude.nthZ (kept as the default for the older generators)
        self.local_types = dict(local_types or {})
        self.defaults = dict(defaults or {})
        self.pyindex = pyindex

    # ------------------------------------------------------------ helpers
    def fresh(self, base):
        self.counter += 1
        return '%s_%d' % (base, self.counter)

    def as_bool(self, txt, t):
        if t == 'bool':
            return txt
        if t == 'Z':
            return '(negb (Z.eqb %s 0))' % txt
        if t[0] in ('list', 'set'):
            return '(negb (is_nil %s))' % txt
        raise Unsupported('truthiness of %r' % (t,))

    def coerce(self, txt, t_from, t_to):
        """value of type t_from used where t_to is expected (None / x into an option)"""
        if t_from == t_to:
            return txt
        if t_to[0] == 'opt':
            if t_from == 'none':
                return 'None'
            if t_from == t_to[1]:
                return '(Some %s)' % txt
        raise Unsupported('value of type %r where %r is expected' % (t_from, t_to))

    # -------------------------------------------------------- expressions
    def expr(self, n, env):
        m = getattr(self, 'e_' + type(n).__name__, None)
        if m is None:
            raise Unsupported('expression %s' % ast.dump(n)[:80])
        return m(n, env)

    def e_Constant(self, n, env):
        v = n.value
        if v is True:
            return 'true', 'bool'
        if v is False:
            return 'false', 'bool'
        if isinstance(v, int):
            return '(%d)%%Z' % v, 'Z'
        if v is None:
            return 'None', 'none'
        raise Unsupported('constant %r' % (v,))

    def e_Name(self, n, env):
        if n.id in env:
            return env[n.id]
        raise Unsupported('free name %s' % n.id)

    def e_UnaryOp(self, n, env):
        x, t = self.expr(n.operand, env)
        if isinstance(n.op, ast.Not):
            return '(negb %s)' % self.as_bool(x, t), 'bool'
        if isinstance(n.op, ast.USub) and t == 'Z':
            return '(Z.opp %s)' % x, 'Z'
        raise Unsupported('unary op')

    BIN = {ast.Add: 'Z.add', ast.Sub: 'Z.sub', ast.Mult: 'Z.mul',
           ast.Mod: 'Z.modulo', ast.FloorDiv: 'Z.div', ast.BitXor: 'Z.lxor'}

    def e_BinOp(self, n, env):
        a, ta = self.expr(n.left, env)
        b, tb = self.expr(n.right, env)
        op = self.BIN.get(type(n.op))
        if op is None:
            raise Unsupported('binop %s' % type(n.op).__name__)
        if ta == 'Z' and tb == 'Z':
            return '(%s %s %s)' % (op, a, b), 'Z'
        if isinstance(n.op, ast.Add) and ta == tb and ta[0] == 'list':
            return '(%s ++ %s)' % (a, b), ta
        raise Unsupported('binop types %r %r' % (ta, tb))

    def e_BoolOp(self, n, env):
        parts = [self.as_bool(*self.expr(v, env)) for v in n.values]
        op = ' && ' if isinstance(n.op, ast.And) else ' || '
        return '(' + op.join(parts) + ')', 'bool'

    CMP = {ast.Lt: 'Z.ltb', ast.LtE: 'Z.leb', ast.Gt: 'Z.gtb', ast.GtE: 'Z.geb'}

    def e_Compare(self, n, env):
        if len(n.ops) != 1:
            raise Unsupported('chained comparison')
        op, rhs = n.ops[0], n.comparators[0]
        if isinstance(op, (ast.Is, ast.IsNot)) and isinstance(rhs, ast.Constant) and rhs.value is None:
            x, t = self.expr(n.left, env)
            if t[0] != 'opt':
                raise Unsupported('is None on non-option')
            r = '(is_none %s)' % x
            return (r if isinstance(op, ast.Is) else '(negb %s)' % r), 'bool'
        if isinstance(op, (ast.In, ast.NotIn)):
            x, t = self.expr(n.left, env)
            if isinstance(rhs, (ast.Set, ast.Tuple, ast.List)):
                elts = [self.expr(e, env) for e in rhs.elts]
                if any(te != t for _, te in elts):
                    raise Unsupported('in: mixed types')
                lst = '[' + '; '.join(e for e, _ in elts) + ']'
            else:
                lst, tl = self.expr(rhs, env)
                if tl[0] not in ('list', 'set') or tl[1] != t:
                    raise Unsupported('in: container type')
            r = '(mem %s %s %s)' % (eqb_for(t), x, lst)
            return (r if isinstance(op, ast.In) else '(negb %s)' % r), 'bool'
        a, ta = self.expr(n.left, env)
        b, tb = self.expr(rhs, env)
        if ta != tb:
            raise Unsupported('comparison of %r and %r' % (ta, tb))
        if isinstance(op, ast.Eq):
            return '(%s %s %s)' % (eqb_for(ta), a, b), 'bool'
        if isinstance(op, ast.NotEq):
            return '(negb (%s %s %s))' % (eqb_for(ta), a, b), 'bool'
        if ta == 'Z' and type(op) in self.CMP:
            return '(%s %s %s)' % (self.CMP[type(op)], a, b), 'bool'
        raise Unsupported('comparison')

    def e_IfExp(self, n, env):
        c = self.as_bool(*self.expr(n.test, env))
        a, ta = self.expr(n.body, env)
        b, tb = self.expr(n.orelse, env)
        if ta != tb:
            raise Unsupported('ifexp types')
        return '(if %s then %s else %s)' % (c, a, b), ta

    def e_Tuple(self, n, env):
        if any(isinstance(e, ast.Starred) for e in n.elts):
            return self.seq_display(n.elts, env)
        es = [self.expr(e, env) for e in n.elts]
        if len(es) == 2:
            return '(%s, %s)' % (es[0][0], es[1][0]), ('pair', es[0][1], es[1][1])
        if len(es) >= 3:
            return '(' + ', '.join(x for x, _ in es) + ')', ('tuple', [t for _, t in es])
        raise Unsupported('tuple of arity %d' % len(es))

    def e_List(self, n, env):
        if not n.elts:
            raise Unsupported('empty list literal outside `name = []` with a declared local type')
        return self.seq_display(n.elts, env)

    def seq_display(self, elts, env):
        """`[a, *xs, b]` / `(*xs, a, *ys)`: homogeneous sequence => list, `++` of the parts"""
        parts, et = [], None
        for e in elts:
            if isinstance(e, ast.Starred):
                x, t = self.expr(e.value, env)
                if t[0] != 'list':
                    raise Unsupported('starred non-list %r' % (t,))
                parts.append(('l', x))
                te = t[1]
            else:
                x, te = self.expr(e, env)
                parts.append(('e', x))
            if et is None:
                et = te
            elif et != te:
                raise Unsupported('sequence display of mixed element types %r, %r' % (et, te))
        out, run = [], []
        for k, x in parts:
            if k == 'e':
                run.append(x)
            else:
                if run:
                    out.append('[' + '; '.join(run) + ']')
                    run = []
                out.append(x)
        if run:
            out.append('[' + '; '.join(run) + ']')
        if len(out) == 1:
            return out[0], ('list', et)
        return '(' + ' ++ '.join(out) + ')', ('list', et)

    def e_Subscript(self, n, env):
        x, t = self.expr(n.value, env)
        if t[0] == 'pair' and isinstance(n.slice, ast.Constant) and n.slice.value in (0, 1):
            return ('(fst %s)' if n.slice.value == 0 else '(snd %s)') % x, t[1 + n.slice.value]
        if t[0] == 'list' and isinstance(n.slice, ast.Slice):
            sl = n.slice
            if sl.step is not None:
                raise Unsupported('slice with a step')
            bounds = []
            for b in (sl.lower, sl.upper):
                if b is None:
                    bounds.append('None')
                else:
                    bx, bt = self.expr(b, env)
                    if bt != 'Z':
                        raise Unsupported('slice bound type')
                    bounds.append('(Some %s)' % bx)
            return '(py_slice %s %s %s)' % (x, bounds[0], bounds[1]), t
        if t[0] == 'list' and self.pyindex:
            i, ti = self.expr(n.slice, env)
            if ti != 'Z':
                raise Unsupported('list index type')
            self.notes.append('l[i]: IndexError is not modelled (py_nth returns the default element)')
            return '(py_nth %s %s %s)' % (default_for(t[1], self.defaults), x, i), t[1]
        if t[0] == 'list':
            i, ti = self.expr(n.slice, env)
            if ti != 'Z':
                raise Unsupported('list index type')
            if t[1] != 'Z':
                raise Unsupported('list index of non-int list')
            return '(nthZ %s %s)' % (x, i), 'Z'
        if t[0] == 'dict':
            k, tk = self.expr(n.slice, env)
            if tk != t[1]:
                raise Unsupported('dict key type %r vs %r' % (tk, t[1]))
            self.notes.append('d[k]: KeyError is not modelled (dget returns the default value)')
            return '(dget %s %s %s %s)' % (eqb_for(t[1]), default_for(t[2], self.defaults), x, k), t[2]
        raise Unsupported('subscript')

    def comp_seq(self, gen, env):
        """general list-producing comprehension: several `for`s, each with `if`s.
        `[e for p1 in it1 if c1 for p2 in it2 if c2]` =>
        flat_map (fun p1 => map (fun p2 => e) (filter (fun p2 => c2) it2)) (filter (fun p1 => c1) it1)"""
        def go(gens, env):
            g = gens[0]
            if g.is_async:
                raise Unsupported('async comprehension')
            it, tit = self.expr(g.iter, env)
            if tit[0] not in ('list', 'set'):
                raise Unsupported('comprehension over %r' % (tit,))
            pat, env2 = self.pattern(g.target, tit[1], env)
            for c in g.ifs:
                cx = self.as_bool(*self.expr(c, env2))
                it = '(filter (fun %s => %s) %s)' % (pat, cx, it)
            if len(gens) == 1:
                body, tb = self.expr(gen.elt, env2)
                return '(map (fun %s => %s) %s)' % (pat, body, it), tb
            inner, tb = go(gens[1:], env2)
            return '(flat_map (fun %s => %s) %s)' % (pat, inner, it), tb
        txt, tb = go(gen.generators, env)
        return txt, ('list', tb)

    def e_GeneratorExp(self, n, env):
        return self.comp_seq(n, env)

    def e_ListComp(self, n, env):
        return self.comp_seq(n, env)

    def e_DictComp(self, n, env):
        """{k: v for p in it if c} => successive d[k] = v on the empty dict"""
        if len(n.generators) != 1:
            raise Unsupported('dict comprehension with several generators')
        g = n.generators[0]
        it, tit = self.expr(g.iter, env)
        if tit[0] not in ('list', 'set'):
            raise Unsupported('comprehension over %r' % (tit,))
        pat, env2 = self.pattern(g.target, tit[1], env)
        for c in g.ifs:
            cx = self.as_bool(*self.expr(c, env2))
            it = '(filter (fun %s => %s) %s)' % (pat, cx, it)
        k, tk = self.expr(n.key, env2)
        v, tv = self.expr(n.value, env2)
        acc = self.fresh('acc')
        return '(fold_left (fun %s %s => dset %s %s %s %s) %s [])' % (acc, pat, eqb_for(tk), k, v, acc, it), ('dict', tk, tv)

    def comp(self, gen, env):
        """one generator `for tgt in it` (no ifs) -> (binder text, new env, iter text)"""
        if len(gen.generators) != 1 or gen.generators[0].ifs:
            raise Unsupported('comprehension shape')
        g = gen.generators[0]
        it, tit = self.expr(g.iter, env)
        if tit[0] not in ('list', 'set'):
            raise Unsupported('comprehension over %r' % (tit,))
        pat, env2 = self.pattern(g.target, tit[1], env)
        body, tb = self.expr(gen.elt, env2)
        return pat, body, tb, it

    def pattern(self, tgt, t, env):
        env2 = dict(env)
        if isinstance(tgt, ast.Name):
            v = self.fresh(tgt.id)
            env2[tgt.id] = (v, t)
            return v, env2
        if isinstance(tgt, ast.Tuple) and t[0] == 'pair' and len(tgt.elts) == 2:
            p0, env2 = self.pattern(tgt.elts[0], t[1], env2)
            p1, env2 = self.pattern(tgt.elts[1], t[2], env2)
            return "'(%s, %s)" % (p0.lstrip("'"), p1.lstrip("'")), env2
        raise Unsupported('pattern')

    def e_Call(self, n, env):
        if n.keywords:
            raise Unsupported('keyword call')
        f = n.func
        if isinstance(f, ast.Name):
            name = f.id
            if name == 'sum' and len(n.args) == 1:
                a = n.args[0]
                if isinstance(a, ast.GeneratorExp):
                    pat, body, tb, it = self.comp(a, env)
                    if tb != 'Z':
                        raise Unsupported('sum of non-int')
                    return '(zsum (map (fun %s => %s) %s))' % (pat, body, it), 'Z'
                x, t = self.expr(a, env)
                if t != ('list', 'Z'):
                    raise Unsupported('sum of %r' % (t,))
                return '(zsum %s)' % x, 'Z'
            if name == 'all' and len(n.args) == 1 and isinstance(n.args[0], ast.GeneratorExp):
                pat, body, tb, it = self.comp(n.args[0], env)
                return '(forallb (fun %s => %s) %s)' % (pat, self.as_bool(body, tb), it), 'bool'
            if name in ('tuple', 'list') and len(n.args) == 1 and isinstance(n.args[0], ast.GeneratorExp) \
                    and (len(n.args[0].generators) != 1 or n.args[0].generators[0].ifs):
                return self.comp_seq(n.args[0], env)
            if name == 'tuple' and len(n.args) == 1 and isinstance(n.args[0], ast.GeneratorExp):
                g = n.args[0]
                # generator over a fixed-arity tuple (pair) => component-wise
                if len(g.generators) == 1 and not g.generators[0].ifs:
                    it, tit = self.expr(g.generators[0].iter, env)
                    if tit[0] == 'pair' and tit[1] == tit[2] and isinstance(g.generators[0].target, ast.Name):
                        out = []
                        for proj in ('fst', 'snd'):
                            env2 = dict(env)
                            env2[g.generators[0].target.id] = ('(%s %s)' % (proj, it), tit[1])
                            out.append(self.expr(g.elt, env2))
                        return '(%s, %s)' % (out[0][0], out[1][0]), ('pair', out[0][1], out[1][1])
                pat, body, tb, it = self.comp(g, env)
                return '(map (fun %s => %s) %s)' % (pat, body, it), ('list', tb)
            if name == 'isinstance' and len(n.args) == 2:
                # typing discipline of the Gallina model: recorded, not checked
                self.notes.append('isinstance(%s) taken as true by typing' % ast.unparse(n))
                return 'true', 'bool'
            if name == 'len' and len(n.args) == 1:
                x, t = self.expr(n.args[0], env)
                if t[0] not in ('list', 'set', 'dict'):
                    raise Unsupported('len of %r' % (t,))
                return '(Z.of_nat (length %s))' % x, 'Z'
            if name == 'range' and len(n.args) == 1:
                x, t = self.expr(n.args[0], env)
                if t != 'Z':
                    raise Unsupported('range arg')
                return '(zrange %s)' % x, ('list', 'Z')
            if name == 'range' and len(n.args) == 2:
                a, ta = self.expr(n.args[0], env)
                b, tb = self.expr(n.args[1], env)
                if ta != 'Z' or tb != 'Z':
                    raise Unsupported('range args')
                return '(zrange2 %s %s)' % (a, b), ('list', 'Z')
            if name == 'enumerate' and len(n.args) == 1:
                x, t = self.expr(n.args[0], env)
                if t[0] != 'list':
                    raise Unsupported('enumerate of %r' % (t,))
                return '(py_enumerate %s)' % x, ('list', ('pair', 'Z', t[1]))
            if name in ('min', 'max') and len(n.args) == 1:
                x, t = self.expr(n.args[0], env)
                if t != ('list', 'Z'):
                    raise Unsupported('%s of %r' % (name, t))
                self.notes.append('%s(): ValueError on an empty sequence is not modelled (py_%s [] = 0)' % (name, name))
                return '(py_%s %s)' % (name, x), 'Z'
            if name == 'slice' and len(n.args) == 2:
                a, ta = self.expr(n.args[0], env)
                b, tb = self.expr(n.args[1], env)
                if ta != 'Z' or tb != 'Z':
                    raise Unsupported('slice args')
                self.notes.append('slice(a, b) is represented by the pair (a, b)')
                return '(%s, %s)' % (a, b), ('pair', 'Z', 'Z')
            if name in ('tuple', 'list') and len(n.args) == 1 and not isinstance(n.args[0], ast.GeneratorExp):
                x, t = self.expr(n.args[0], env)
                if t[0] != 'list':
                    raise Unsupported('%s() of %r' % (name, t))
                return x, t
            if name == 'set' and not n.args:
                return '[]', ('set', 'Z')
            if name in self.funcs:
                fn = self.funcs[name]
                args = []
                for i, (pn, pt) in enumerate(fn.params):
                    if i < len(n.args):
                        a, ta = self.expr(n.args[i], env)
                        if ta != pt:
                            raise Unsupported('arg type %r vs %r in call to %s' % (ta, pt, name))
                        args.append(a)
                    else:
                        raise Unsupported('missing positional arg in call to %s' % name)
                return '(%s %s)' % (fn.coqname, ' '.join(args)), fn.ret
        raise Unsupported('call %s' % ast.unparse(n)[:60])

    # --------------------------------------------------------- statements
    def assigned(self, stmts):
        """names (re)bound or mutated by a statement list"""
        out = []

        def add(x):
            if x not in out:
                out.append(x)

        for s in stmts:
            if isinstance(s, ast.Assign):
                for t in s.targets:
                    if isinstance(t, ast.Subscript) and isinstance(t.value, ast.Name):
                        add(t.value.id)   # d[k] = v mutates d only
                        continue
                    for nm in ast.walk(t):
                        if isinstance(nm, ast.Name):
                            add(nm.id)
            elif isinstance(s, ast.AugAssign):
                if not isinstance(s.target, ast.Name):
                    raise Unsupported('augassign target')
                add(s.target.id)
            elif isinstance(s, ast.Expr) and isinstance(s.value, ast.Call) and \
                    isinstance(s.value.func, ast.Attribute) and isinstance(s.value.func.value, ast.Name):
                add(s.value.func.value.id)
            elif isinstance(s, ast.If):
                for x in self.assigned(s.body) + self.assigned(s.orelse):
                    add(x)
            elif isinstance(s, ast.For):
                for x in self.assigned(s.body):
                    add(x)
            elif isinstance(s, (ast.Return, ast.Pass)):
                pass
            elif isinstance(s, ast.Expr) and isinstance(s.value, ast.Constant):
                pass
            else:
                raise Unsupported('statement %s' % type(s).__name__)
        return out

    def has_return(self, stmts):
        return any(isinstance(x, ast.Return) for s in stmts for x in ast.walk(s))

    def state_tuple(self, names, env):
        if not names:
            return 'tt'
        txt = env[names[0]][0]
        for nm in names[1:]:
            txt = '(%s, %s)' % (txt, env[nm][0])
        return txt

    def state_pattern(self, names, env):
        """fresh binders for names; returns (pattern, env')"""
        env2 = dict(env)
        if not names:
            return '_', env2
        vs = []
        for nm in names:
            v = self.fresh(nm)
            env2[nm] = (v, env[nm][1])
            vs.append(v)
        pat = vs[0]
        for v in vs[1:]:
            pat = '(%s, %s)' % (pat, v)
        return ("'" + pat if len(vs) > 1 else pat), env2

    def block(self, stmts, env, ret_t, tail):
        """Translate a statement list into an expression.  `tail(env)` gives
        the expression to continue with when the list falls off its end."""
        if not stmts:
            return tail(env)
        s, rest = stmts[0], stmts[1:]
        if isinstance(s, ast.Expr) and isinstance(s.value, ast.Constant):
            return self.block(rest, env, ret_t, tail)  # docstring
        if isinstance(s, ast.Pass):
            return self.block(rest, env, ret_t, tail)
        if isinstance(s, ast.Return):
            x, t = self.expr(s.value, env)
            if t != ret_t:
                raise Unsupported('return type %r, expected %r' % (t, ret_t))
            return x
        if isinstance(s, ast.Assign):
            if len(s.targets) != 1:
                raise Unsupported('multi-target assign')
            tgt = s.targets[0]
            if isinstance(tgt, ast.Tuple) and isinstance(s.value, ast.Tuple) and len(tgt.elts) == len(s.value.elts):
                vals = [self.expr(v, env) for v in s.value.elts]
                env2 = dict(env)
                lets = ''
                for nm, (x, t) in zip(tgt.elts, vals):
                    if not isinstance(nm, ast.Name):
                        raise Unsupported('assign target')
                    v = self.fresh(nm.id)
                    lets += 'let %s := %s in ' % (v, x)
                    env2[nm.id] = (v, t)
                return '(' + lets + self.block(rest, env2, ret_t, tail) + ')'
            if isinstance(tgt, ast.Name) and tgt.id in self.local_types and (
                    (isinstance(s.value, (ast.List, ast.Tuple)) and not s.value.elts)
                    or (isinstance(s.value, ast.Dict) and not s.value.keys)):
                lt = self.local_types[tgt.id]
                want = 'dict' if isinstance(s.value, ast.Dict) else 'list'
                if lt[0] != want:
                    raise Unsupported('declared type %r of %s does not fit its empty %s literal' % (lt, tgt.id, want))
                v = self.fresh(tgt.id)
                env2 = dict(env)
                env2[tgt.id] = (v, lt)
                return '(let %s := (@nil %s) in %s)' % (
                    v, ty_str(lt)[len('(list '):-1], self.block(rest, env2, ret_t, tail))
            if isinstance(tgt, ast.Subscript) and isinstance(tgt.value, ast.Name) and tgt.value.id in env \
                    and env[tgt.value.id][1][0] == 'dict' and not isinstance(tgt.slice, ast.Slice):
                nm = tgt.value.id
                dx, dt = env[nm]
                k, tk = self.expr(tgt.slice, env)
                if tk != dt[1]:
                    raise Unsupported('dict key type %r vs %r' % (tk, dt[1]))
                x, t = self.expr(s.value, env)
                x = self.coerce(x, t, dt[2])
                v = self.fresh(nm)
                env2 = dict(env)
                env2[nm] = (v, dt)
                return '(let %s := (dset %s %s %s %s) in %s)' % (
                    v, eqb_for(dt[1]), k, x, dx, self.block(rest, env2, ret_t, tail))
            x, t = self.expr(s.value, env)
            if isinstance(tgt, ast.Name):
                v = self.fresh(tgt.id)
                env2 = dict(env)
                env2[tgt.id] = (v, t)
                return '(let %s := %s in %s)' % (v, x, self.block(rest, env2, ret_t, tail))
            pat, env2 = self.pattern(tgt, t, env)
            return '(let %s := %s in %s)' % (pat, x, self.block(rest, env2, ret_t, tail))
        if isinstance(s, ast.AugAssign):
            fake = ast.BinOp(left=ast.Name(id=s.target.id, ctx=ast.Load()), op=s.op, right=s.value)
            x, t = self.expr(fake, env)
            v = self.fresh(s.target.id)
            env2 = dict(env)
            env2[s.target.id] = (v, t)
            return '(let %s := %s in %s)' % (v, x, self.block(rest, env2, ret_t, tail))
        if isinstance(s, ast.Expr) and isinstance(s.value, ast.Call) and isinstance(s.value.func, ast.Attribute):
            c = s.value
            if c.func.attr == 'add' and isinstance(c.func.value, ast.Name) and len(c.args) == 1:
                nm = c.func.value.id
                sx, st = env[nm]
                if st[0] != 'set':
                    raise Unsupported('.add on non-set')
                x, t = self.expr(c.args[0], env)
                if t != st[1]:
                    raise Unsupported('.add element type')
                v = self.fresh(nm)
                env2 = dict(env)
                env2[nm] = (v, st)
                return '(let %s := (%s :: %s) in %s)' % (v, x, sx, self.block(rest, env2, ret_t, tail))
            if c.func.attr == 'append' and isinstance(c.func.value, ast.Name) and len(c.args) == 1 \
                    and not c.keywords and c.func.value.id in env and env[c.func.value.id][1][0] == 'list':
                nm = c.func.value.id
                sx, st = env[nm]
                x, t = self.expr(c.args[0], env)
                x = self.coerce(x, t, st[1])
                v = self.fresh(nm)
                env2 = dict(env)
                env2[nm] = (v, st)
                return '(let %s := (%s ++ [%s]) in %s)' % (v, sx, x, self.block(rest, env2, ret_t, tail))
            if c.func.attr == 'setdefault' and isinstance(c.func.value, ast.Name) and len(c.args) == 2 \
                    and not c.keywords and c.func.value.id in env and env[c.func.value.id][1][0] == 'dict':
                nm = c.func.value.id
                dx, dt = env[nm]
                k, tk = self.expr(c.args[0], env)
                if tk != dt[1]:
                    raise Unsupported('dict key type %r vs %r' % (tk, dt[1]))
                x, t = self.expr(c.args[1], env)
                x = self.coerce(x, t, dt[2])
                v = self.fresh(nm)
                env2 = dict(env)
                env2[nm] = (v, dt)
                return '(let %s := (dsetdefault %s %s %s %s) in %s)' % (
                    v, eqb_for(dt[1]), k, x, dx, self.block(rest, env2, ret_t, tail))
            raise Unsupported('method call statement')
        if isinstance(s, ast.If):
            # `x is None` on an option-typed name => match, rebinding the name
            t_ = s.test
            if isinstance(t_, ast.Compare) and len(t_.ops) == 1 and isinstance(t_.ops[0], ast.Is) \
                    and isinstance(t_.left, ast.Name) and isinstance(t_.comparators[0], ast.Constant) \
                    and t_.comparators[0].value is None and env[t_.left.id][1][0] == 'opt':
                if s.orelse or not self.has_return(s.body) or not isinstance(s.body[-1], (ast.Return, ast.If)):
                    raise Unsupported('is-None branch shape')
                nm = t_.left.id
                ox, ot = env[nm]
                v = self.fresh(nm)
                env_some = dict(env)
                env_some[nm] = (v, ot[1])
                none_br = self.block(s.body, env, ret_t, lambda e: self._fall(ret_t))
                some_br = self.block(rest, env_some, ret_t, tail)
                return '(match %s with None => %s | Some %s => %s end)' % (ox, none_br, v, some_br)
            c = self.as_bool(*self.expr(s.test, env))
            if self.has_return(s.body) or self.has_return(s.orelse):
                # branches that may return: continue with `rest` in both
                a = self.block(s.body + rest, env, ret_t, tail)
                b = self.block(s.orelse + rest, env, ret_t, tail)
                return '(if %s then %s else %s)' % (c, a, b)
            names = [x for x in self.assigned(s.body) + self.assigned(s.orelse) if x in env]
            names = list(dict.fromkeys(names))
            a = self.block(s.body, env, None, lambda e: self.state_tuple(names, e))
            b = self.block(s.orelse, env, None, lambda e: self.state_tuple(names, e))
            pat, env2 = self.state_pattern(names, env)
            return '(let %s := (if %s then %s else %s) in %s)' % (
                pat, c, a, b, self.block(rest, env2, ret_t, tail))
        if isinstance(s, ast.For):
            if s.orelse or self.has_return(s.body):
                raise Unsupported('for with else/return')
            it, tit = self.expr(s.iter, env)
            if tit[0] not in ('list', 'set'):
                raise Unsupported('for over %r' % (tit,))
            names = [x for x in self.assigned(s.body) if x in env]
            spat, env_in = self.state_pattern(names, env)
            tpat, env_in = self.pattern(s.target, tit[1], env_in)
            body = self.block(s.body, env_in, None, lambda e: self.state_tuple(names, e))
            init = self.state_tuple(names, env)
            pat, env2 = self.state_pattern(names, env)
            return '(let %s := (fold_left (fun %s %s => %s) %s %s) in %s)' % (
                pat, spat if spat.startswith("'") or spat == '_' else spat, tpat, body, it, init,
                self.block(rest, env2, ret_t, tail))
        raise Unsupported('statement %s' % type(s).__name__)

    def _fall(self, ret_t):
        raise Unsupported('function may fall off its end')

    def function(self, fdef, coqname, params, ret_t, skip_self=False):
        """fdef: ast.FunctionDef; params: list of (pyname, type) in order."""
        args = [a.arg for a in fdef.args.args]
        if skip_self:
            args = args[1:]
        if fdef.args.vararg is not None:
            args = args + [fdef.args.vararg.arg]
        if fdef.args.kwonlyargs or fdef.args.kwarg:
            raise Unsupported('kw-only / **kwargs')
        if args != [p for p, _ in params]:
            raise Unsupported('parameter list of %s is %r, expected %r' % (fdef.name, args, [p for p, _ in params]))
        env = {}
        binders = []
        for p, t in params:
            env[p] = (p, t)
            binders.append('(%s : %s)' % (p, ty_str(t)))
        body = self.block(fdef.body, env, ret_t, lambda e: self._fall(ret_t))
        return 'Definition %s %s : %s :=\n  %s.\n' % (coqname, ' '.join(binders), ty_str(ret_t), body)
