"""Regenerate coq/Gen/PhasesGen.v from the CURRENT source of the sign bookkeeping
of `FermionicArray` in $SYMMRAY_REPO/symmray/fermionic_core.py:

    phase_global, phase_flip, phase_transpose, phase_sector, phase_sync,
    transpose, conj, dagger

Each method becomes one Gallina function `<method>_gen` from the state of the
array `new` it works on

    (indices, charge, blocks, phases, oddpos)

and the method's arguments to the state after the call (the out-of-place
meaning: `new = self if inplace else self.copy()` makes `new` an array whose
sign table is a copy of `self`'s).  The state is

    indices : list gindex      one entry per index: its `dual` flag (`ix.conj()` negates it)
    charge  : C G
    blocks  : list (sector * B) the dict `_blocks`, insertion ordered; B is ABSTRACT (a Section
                                variable), the backend functions `-x`, conj, transpose on a block are the
                                Section variables bneg, bconj, btranspose: which block is stored under
                                which key and which one is negated comes from the source, what a block
                                is does not matter here
    phases  : list (sector * Z) the dict `_phases` (pending sign table), insertion ordered
    oddpos  : list op          (Gen/OpOrder.v)

Fail-closed: every statement and expression of the eight methods must be of a
form listed below, anything else raises `pygallina.Unsupported` (a broken
translator tie of C09/C03/C10, never a silent skip).  What is read from the
source: which axes are summed, which parities are multiplied, `.get(sector, 1)`,
`.pop`, when an entry is dropped and when stored, the key it is stored under,
the order of permutation sign / dual-leg sign in `conj`, from which indices the
dual legs are computed (before or after conjugation), the `phase_global` /
`phase_flip` calls at the end of `conj` / `dagger` and their conditions.

Recognised (beyond the expression fragment of tr/pygallina.py):
  * `new = self if inplace else self.copy()` as the first statement (dropped;
    `inplace` and `self` may not occur afterwards);
  * `new.<field>` / `new._<field>` for the five fields (the accessor
    properties, `copy` and both `modify` are checked to have the expected
    bodies), `new.sectors` = keys of `_blocks`, `new.ndim` = len of indices,
    `new.parity` = parity of the charge, `new.symmetry.parity(c)` = the
    symmetry record's `parityZ`, `new.symmetry.sign(c)` = `sign G c true`
    (every `sign` in symmetries.py has the default `dual=True`: checked),
    `ar.get_lib_fn(new.backend, "conj" | "transpose")` = bconj / btranspose;
  * `name = new.phases` (an ALIAS of the table: reads and updates through the
    name are reads and updates of the field; only at the top level of a method);
    `name = new.phases.copy()` (a value); `name = {}` for a name that is later
    handed to `new.modify(<field>=name)` (typed by that field; the name may not
    be used after the `modify`);
  * `new.modify(k=v, ...)` (all values first, then the fields), also as
    `return new.modify(...)`; `return new`;
  * dict operations: `d.get(k, default)`, `d.pop(k, default)` (as a statement,
    or once inside the value of an assignment / the test of an `if`),
    `d[k] = v`, `d.copy()`, `d.items()`, `for k, v in d.items():` where the
    body updates `d` only by `d[k] = ...` for the loop's own key;
  * `while d: k, v = d.popitem(); <body not mentioning d>`  =  a fold of the
    body over the items of `d` from the LAST inserted to the first, after which
    `d` is empty;
  * `try: d[k] = f(d[k]) except KeyError: pass`;
  * `if x is None: x = e` for an optional parameter;
  * `calc_phase_permutation(p, perm)` = the translated routine of
    Gen/PhasePerm.v, `oddpos_dag` = Gen/OpOrder.v, `permuted` (translated here
    from abelian_core.py), `tuple(map(f, seq))`, `reversed(x)`, `x[::-1]`,
    `range(a, b, -1)`, `ix.dual`, `ix.conj()` (BlockIndex.conj checked to negate
    `dual`);
  * `new.phase_global(inplace=True)`, `new.phase_flip(*axs, inplace=True)` =
    calls of the functions generated here; `AbelianArray.transpose(new, axes,
    inplace=True)` = the Section variable `abelian_transpose` on (indices,
    blocks) (block data movement is not translated; abelian_core.py is checked
    not to mention the sign table at all).

Local names do not matter (bound variables are numbered).  IndexError of
`sector[ax]` is not modelled (py_nth returns the identity charge / 0).
"""
import ast
import copy
import os
import sys

sys.path.insert(0, os.path.dirname(os.path.abspath(__file__)))
from pygallina import Translator, Unsupported, ty_str  # noqa: E402
import gen_oporder  # noqa: E402
from gen_oporder import OP  # noqa: E402

CH = ('var', 'Ch')
SECTOR = ('list', CH)
BLK = ('var', 'B')
IX = ('var', 'gindex')
LZ = ('list', 'Z')
T_PH = ('dict', SECTOR, 'Z')
T_BL = ('dict', SECTOR, BLK)
FIELDS = [('indices', ('list', IX)), ('charge', CH), ('blocks', T_BL), ('phases', T_PH), ('oddpos', ('list', OP))]
FTYPE = dict(FIELDS)
ST = {f: '__st_' + f for f, _ in FIELDS}          # field -> the local name that holds it after the rewrite
ST_INV = {v: k for k, v in ST.items()}
ATTR = {}
for _f, _ in FIELDS:
    ATTR[_f] = _f
    ATTR['_' + _f] = _f
STATE_TY = '(' + ' * '.join(ty_str(t) for _, t in FIELDS) + ')'

# method -> (positional parameters after self with their types and defaults, vararg, keyword-only)
METHODS = [
    ('phase_global', [], None),
    ('phase_flip', [], ('axs', LZ)),
    ('phase_transpose', [('axes', ('opt', LZ), None)], None),
    ('phase_sector', [('sector', SECTOR, '<required>')], None),
    ('phase_sync', [], None),
    ('transpose', [('axes', ('opt', LZ), None), ('phase', 'bool', True)], None),
    ('conj', [('phase_permutation', 'bool', True), ('phase_dual', 'bool', False)], None),
    ('dagger', [('phase_dual', 'bool', False)], None),
]
CALLABLE_INPLACE = ('phase_global', 'phase_flip')     # methods that conj / dagger call on `new`

EXPECT = {
    ('FermionicArray', 'parity'): '@property\ndef parity(self):\n    return self.symmetry.parity(self.charge)',
    ('FermionicArray', 'phases'): '@property\ndef phases(self):\n    try:\n        return self._phases\n    except AttributeError:\n'
                                  '        self._phases = {}\n        return self._phases',
    ('FermionicArray', 'oddpos'): '@property\ndef oddpos(self):\n    try:\n        return self._oddpos\n    except AttributeError:\n'
                                  '        self._oddpos = ()\n        return self._oddpos',
    ('FermionicArray', 'copy'): 'def copy(self):\n    new = super().copy()\n    new._phases = self.phases.copy()\n'
                                '    new._oddpos = self.oddpos\n    return new',
    ('FermionicArray', 'modify'): 'def modify(self, indices=None, blocks=None, charge=None, phases=None, oddpos=None):\n'
                                  '    if phases is not None:\n        self._phases = phases\n'
                                  '    if oddpos is not None:\n        self._oddpos = oddpos\n'
                                  '    return super().modify(indices=indices, blocks=blocks, charge=charge)',
    ('AbelianArray', 'modify'): 'def modify(self, indices=None, charge=None, blocks=None):\n'
                                '    if indices is not None:\n        self._indices = indices\n'
                                '    if charge is not None:\n        self._charge = charge\n'
                                '    if blocks is not None:\n        self._blocks = blocks\n'
                                '    if DEBUG:\n        self.check()\n    return self',
    ('AbelianArray', 'symmetry'): '@property\ndef symmetry(self):\n    return self._symmetry',
    ('AbelianArray', 'indices'): '@property\ndef indices(self):\n    return self._indices',
    ('AbelianArray', 'charge'): '@property\ndef charge(self):\n    return self._charge',
    ('AbelianArray', 'ndim'): '@property\ndef ndim(self):\n    return len(self._indices)',
    ('BlockIndex', 'dual'): '@property\ndef dual(self):\n    return self._dual',
    ('BlockIndex', 'conj'): 'def conj(self):\n    dual = not self.dual\n'
                            '    subinfo = None if self.subinfo is None else self.subinfo.conj()\n'
                            '    return self.copy_with(dual=dual, subinfo=subinfo)',
    ('BlockBase', 'sectors'): '@property\ndef sectors(self):\n    return tuple(self._blocks.keys())',
    ('BlockBase', 'blocks'): '@property\ndef blocks(self):\n    return self._blocks',
}

PREAMBLE = '''(* GENERATED by tr/gen_phases.py from symmray/fermionic_core.py (FermionicArray: phase_global, phase_flip, phase_transpose, phase_sector, phase_sync, transpose, conj, dagger) - do not edit. *)
From SV Require Import Base.Prelude Base.PyList Base.Sym Gen.PhasePerm Gen.OpOrder.
Local Open Scope Z_scope.

(* ---- fixed text: the representation and the Python semantics of the constructs used ---- *)
(* an index, as far as the sign bookkeeping can see it: its `dual` flag *)
Definition gindex := bool.
Definition gindex_dual (ix : gindex) : bool := ix.
(* BlockIndex.conj (checked by the translator to negate `dual`) *)
Definition gindex_conj (ix : gindex) : gindex := negb ix.

(* range(a, b, -1) *)
Definition py_range_down (a b : Z) : list Z := map (fun i => a - i) (zrange (a - b)).

(* d.get(k, dv) *)
Definition py_dict_get {K V} (e : K -> K -> bool) (dv : V) (d : list (K * V)) (k : K) : V :=
  match lookup e k d with Some v => v | None => dv end.

Section Phases.
  Context (G : Symmetry).
  Notation Ch := (C G).
  (* what a block is does not matter to the bookkeeping: -x, conj(x), transpose(x) of the backend *)
  Context (B : Type) (bneg bconj btranspose : B -> B).
  (* AbelianArray.transpose(new, axes, inplace=True) on (indices, blocks): not translated *)
  Context (abelian_transpose : list gindex -> list (list Ch * B) -> list Z -> list gindex * list (list Ch * B)).
  Notation keq := (list_eqb (ceqb G)).

'''


# ------------------------------------------------------------------ source access
def find(body, kind, name):
    for n in body:
        if isinstance(n, kind) and n.name == name:
            return n
    raise Unsupported('%s %s not found' % (kind.__name__, name))


def strip_doc(body):
    body = list(body)
    if body and isinstance(body[0], ast.Expr) and isinstance(body[0].value, ast.Constant) \
            and isinstance(body[0].value.value, str):
        body = body[1:]
    return body


def fn_shape(f):
    return (ast.dump(f.args), [ast.dump(d) for d in f.decorator_list], [ast.dump(s) for s in strip_doc(f.body)])


def check_expected(trees):
    """the accessors / helpers the translation relies on have the bodies it assumes"""
    classes = {}
    for tree in trees:
        for n in tree.body:
            if isinstance(n, ast.ClassDef):
                classes.setdefault(n.name, n)
    for (cls, name), src in EXPECT.items():
        if cls not in classes:
            raise Unsupported('class %s not found' % cls)
        want = fn_shape(ast.parse(src).body[0])
        got = [fn_shape(f) for f in classes[cls].body if isinstance(f, ast.FunctionDef) and f.name == name]
        if got != [want]:
            raise Unsupported('%s.%s does not have the body the translation of the sign bookkeeping relies on' % (cls, name))
    fa = classes['FermionicArray']
    if [ast.dump(b) for b in fa.bases] != [ast.dump(ast.parse('AbelianArray').body[0].value)]:
        raise Unsupported('bases of FermionicArray')
    if [ast.dump(b) for b in classes['AbelianArray'].bases] != [ast.dump(ast.parse('BlockBase').body[0].value)]:
        raise Unsupported('bases of AbelianArray')
    # the accessors must not be overridden between BlockBase and FermionicArray
    for cls, names in (('AbelianArray', ('sectors', 'blocks', 'parity', 'phases', 'copy_phases')),
                       ('FermionicArray', ('sectors', 'blocks', 'indices', 'charge', 'ndim', 'symmetry', '__getattr__',
                                           '__getattribute__', '__setattr__'))):
        for f in classes[cls].body:
            if isinstance(f, ast.FunctionDef) and f.name in names:
                raise Unsupported('%s overrides %s' % (cls, f.name))


def check_no_sign_table_in_abelian(tree):
    for n in ast.walk(tree):
        if isinstance(n, ast.Attribute) and n.attr in ('_phases', 'phases', '_oddpos', 'oddpos'):
            raise Unsupported('abelian_core.py mentions .%s: AbelianArray.transpose may touch the sign table' % n.attr)
        if isinstance(n, ast.Constant) and n.value in ('_phases', 'phases'):
            raise Unsupported('abelian_core.py mentions %r' % n.value)


def check_sign_defaults(tree):
    n = 0
    for c in tree.body:
        if isinstance(c, ast.ClassDef):
            for f in c.body:
                if isinstance(f, ast.FunctionDef) and f.name == 'sign':
                    a = f.args
                    if [x.arg for x in a.args] != ['self', 'charge', 'dual'] or len(a.defaults) != 1 or \
                            not (isinstance(a.defaults[0], ast.Constant) and a.defaults[0].value is True) or a.vararg or a.kwarg:
                        raise Unsupported('%s.sign does not have the signature (self, charge, dual=True)' % c.name)
                    n += 1
    if n == 0:
        raise Unsupported('no sign method found in symmetries.py')


# ------------------------------------------------------------------ rewriting `new.<attr>` into plain names
class Rewriter(ast.NodeTransformer):
    def __init__(self, obj):
        self.obj = obj

    def is_obj(self, n):
        return isinstance(n, ast.Name) and n.id == self.obj

    def visit_Call(self, n):
        f = n.func
        # ar.get_lib_fn(new.backend, "conj")
        if isinstance(f, ast.Attribute) and f.attr == 'get_lib_fn' and isinstance(f.value, ast.Name) and f.value.id == 'ar':
            if len(n.args) == 2 and not n.keywords and isinstance(n.args[0], ast.Attribute) and self.is_obj(n.args[0].value) \
                    and n.args[0].attr == 'backend' and isinstance(n.args[1], ast.Constant) and n.args[1].value in ('conj', 'transpose'):
                return ast.Name(id='__b%s__' % n.args[1].value, ctx=ast.Load())
            raise Unsupported('backend function %s' % ast.unparse(n))
        return self.generic_visit(n)

    def visit_Attribute(self, n):
        if self.is_obj(n.value):
            if n.attr in ATTR:
                return ast.Name(id=ST[ATTR[n.attr]], ctx=n.ctx)
            if n.attr == 'sectors':
                return ast.Call(func=ast.Name(id='__keys__', ctx=ast.Load()), args=[ast.Name(id=ST['blocks'], ctx=ast.Load())], keywords=[])
            if n.attr == 'ndim':
                return ast.Call(func=ast.Name(id='len', ctx=ast.Load()), args=[ast.Name(id=ST['indices'], ctx=ast.Load())], keywords=[])
            if n.attr == 'parity':
                return ast.Call(func=ast.Name(id='__parity__', ctx=ast.Load()), args=[ast.Name(id=ST['charge'], ctx=ast.Load())], keywords=[])
            if n.attr in ('modify',) + CALLABLE_INPLACE:
                return n
            raise Unsupported('attribute .%s of the array' % n.attr)
        if isinstance(n.value, ast.Attribute) and self.is_obj(n.value.value) and n.value.attr == 'symmetry':
            if n.attr == 'parity':
                return ast.Name(id='__parity__', ctx=ast.Load())
            if n.attr == 'sign':
                return ast.Name(id='__sign__', ctx=ast.Load())
            raise Unsupported('symmetry method .%s' % n.attr)
        return self.generic_visit(n)


class PhasesTranslator(Translator):
    def __init__(self, notes, obj, fresh_types, permuted_ok):
        Translator.__init__(self, {}, notes, defaults={'Ch': '(ident G)'}, pyindex=True)
        self.obj = obj
        self.alias = {}            # python name -> state name it is an alias of
        self.fnalias = {}          # python name -> builtin function name (__bconj__, __parity__, ...)
        self.poisoned = {}         # python name -> why it may not be used any more
        self.fresh_types = fresh_types   # python name -> type of its `{}` initialiser
        self.depth = 0
        self.permuted_ok = permuted_ok

    # ---------------------------------------------------------------- helpers
    def fresh(self, base):
        self.counter += 1
        return 'v%d' % self.counter

    def eqb(self, t):
        if t == 'Z':
            return 'Z.eqb'
        if t == 'bool':
            return 'Bool.eqb'
        if t == CH:
            return '(ceqb G)'
        if t == SECTOR:
            return 'keq'
        raise Unsupported('equality on %r' % (t,))

    def res(self, name):
        if name in self.poisoned:
            raise Unsupported('%s is used after %s' % (name, self.poisoned[name]))
        return self.alias.get(name, name)

    def dict_name(self, n, env):
        """n is a Name denoting a dict variable: returns (env key, text, type)"""
        if not isinstance(n, ast.Name):
            raise Unsupported('dict operation on %s' % ast.unparse(n)[:50])
        k = self.res(n.id)
        if k not in env or env[k][1][0] != 'dict':
            raise Unsupported('%s is not a known dict' % n.id)
        return k, env[k][0], env[k][1]

    def bind(self, env, key, txt, t):
        v = self.fresh(key)
        env2 = dict(env)
        env2[key] = (v, t)
        return '(let %s := %s in ' % (v, txt), env2

    def state_result(self, env):
        return '(' + ', '.join(env[ST[f]][0] for f, _ in FIELDS) + ')'

    # ---------------------------------------------------------------- expressions
    def e_Name(self, n, env):
        k = self.res(n.id)
        if k in env:
            return env[k]
        raise Unsupported('free name %s' % n.id)

    def e_UnaryOp(self, n, env):
        if isinstance(n.op, ast.USub):
            x, t = self.expr(n.operand, env)
            if t == BLK:
                return '(bneg %s)' % x, BLK
            if t == 'Z':
                return '(Z.opp %s)' % x, 'Z'
            raise Unsupported('unary minus on %r' % (t,))
        return Translator.e_UnaryOp(self, n, env)

    def e_Attribute(self, n, env):
        x, t = self.expr(n.value, env)
        if t == IX and n.attr == 'dual':
            return '(gindex_dual %s)' % x, 'bool'
        raise Unsupported('attribute .%s of %r' % (n.attr, t))

    def e_Subscript(self, n, env):
        sl = n.slice
        if isinstance(sl, ast.Slice):
            x, t = self.expr(n.value, env)
            if t[0] == 'list' and sl.lower is None and sl.upper is None and isinstance(sl.step, ast.UnaryOp) \
                    and isinstance(sl.step.op, ast.USub) and isinstance(sl.step.operand, ast.Constant) and sl.step.operand.value == 1:
                return '(rev %s)' % x, t
            raise Unsupported('slice %s' % ast.unparse(n))
        x, t = self.expr(n.value, env)
        if t[0] == 'dict':
            raise Unsupported('d[k] outside `try: d[k] = f(d[k]) except KeyError: pass`')
        return Translator.e_Subscript(self, n, env)

    def e_Compare(self, n, env):
        if len(n.ops) == 1 and isinstance(n.ops[0], (ast.Eq, ast.NotEq)):
            a, ta = self.expr(n.left, env)
            b, tb = self.expr(n.comparators[0], env)
            if ta != tb:
                raise Unsupported('comparison of %r and %r' % (ta, tb))
            r = '(%s %s %s)' % (self.eqb(ta), a, b)
            return (r if isinstance(n.ops[0], ast.Eq) else '(negb %s)' % r), 'bool'
        return Translator.e_Compare(self, n, env)

    def builtin(self, f):
        """name of the builtin a call target denotes, or None"""
        if isinstance(f, ast.Name):
            nm = f.id
            if nm in self.fnalias:
                return self.fnalias[nm]
            if nm.startswith('__') and nm.endswith('__') and nm not in self.alias:
                return nm
        return None

    def e_Call(self, n, env):
        f = n.func
        b = self.builtin(f)
        if b is not None:
            if n.keywords or len(n.args) != 1:
                raise Unsupported('call %s' % ast.unparse(n)[:60])
            x, t = self.expr(n.args[0], env)
            if b == '__parity__' and t == CH:
                return '(parityZ G %s)' % x, 'Z'
            if b == '__sign__' and t == CH:
                return '(sign G %s true)' % x, CH
            if b == '__bconj__' and t == BLK:
                return '(bconj %s)' % x, BLK
            if b == '__btranspose__' and t == BLK:
                return '(btranspose %s)' % x, BLK
            if b == '__keys__' and t[0] == 'dict':
                return '(keys %s)' % x, ('list', t[1])
            raise Unsupported('call %s on %r' % (b, t))
        if isinstance(f, ast.Name) and not n.keywords:
            nm = f.id
            if nm == 'map' and len(n.args) == 2:
                fb = self.builtin(n.args[0])
                if fb is None:
                    raise Unsupported('map of %s' % ast.unparse(n.args[0])[:40])
                x, t = self.expr(n.args[1], env)
                if t[0] != 'list':
                    raise Unsupported('map over %r' % (t,))
                v = self.fresh('m')
                body, tb = self.e_Call(ast.Call(func=ast.Name(id=fb, ctx=ast.Load()), args=[ast.Name(id='%map', ctx=ast.Load())],
                                                keywords=[]), {**env, '%map': (v, t[1])})
                return '(map (fun %s => %s) %s)' % (v, body, x), ('list', tb)
            if nm in ('tuple', 'list') and len(n.args) == 1 and isinstance(n.args[0], ast.Call) \
                    and isinstance(n.args[0].func, ast.Name) and n.args[0].func.id in ('map', 'reversed'):
                return self.expr(n.args[0], env)
            if nm == 'reversed' and len(n.args) == 1:
                x, t = self.expr(n.args[0], env)
                if t[0] != 'list':
                    raise Unsupported('reversed of %r' % (t,))
                return '(rev %s)' % x, t
            if nm == 'range' and len(n.args) == 3:
                st = n.args[2]
                if not (isinstance(st, ast.UnaryOp) and isinstance(st.op, ast.USub) and isinstance(st.operand, ast.Constant)
                        and st.operand.value == 1):
                    raise Unsupported('range with a step other than -1')
                a, ta = self.expr(n.args[0], env)
                c, tc = self.expr(n.args[1], env)
                if ta != 'Z' or tc != 'Z':
                    raise Unsupported('range args')
                return '(py_range_down %s %s)' % (a, c), LZ
            if nm == 'calc_phase_permutation' and len(n.args) == 2:
                a, ta = self.expr(n.args[0], env)
                p, tp = self.expr(n.args[1], env)
                if ta != LZ:
                    raise Unsupported('calc_phase_permutation parities of type %r' % (ta,))
                return '(calc_phase_permutation %s %s)' % (a, self.coerce(p, tp, ('opt', LZ))), 'Z'
            if nm == 'permuted' and len(n.args) == 2 and self.permuted_ok:
                a, ta = self.expr(n.args[0], env)
                p, tp = self.expr(n.args[1], env)
                if ta != SECTOR or tp != LZ:
                    raise Unsupported('permuted of %r, %r' % (ta, tp))
                return '(permuted_gen %s %s)' % (a, p), SECTOR
            if nm == 'oddpos_dag' and len(n.args) == 1:
                x, t = self.expr(n.args[0], env)
                if t != ('list', OP):
                    raise Unsupported('oddpos_dag of %r' % (t,))
                return '(oddpos_dag %s)' % x, t
        if isinstance(f, ast.Attribute):
            if f.attr == 'conj' and not n.args and not n.keywords:
                x, t = self.expr(f.value, env)
                if t == IX:
                    return '(gindex_conj %s)' % x, IX
                raise Unsupported('.conj() of %r' % (t,))
            if f.attr in ('get', 'copy', 'items') and isinstance(f.value, ast.Name):
                k, dx, dt = self.dict_name(f.value, env)
                if n.keywords:
                    raise Unsupported('keyword in dict call')
                if f.attr == 'get' and len(n.args) == 2:
                    kx, kt = self.expr(n.args[0], env)
                    d, tdv = self.expr(n.args[1], env)
                    if kt != dt[1] or tdv != dt[2]:
                        raise Unsupported('.get(%r, %r) on %r' % (kt, tdv, dt))
                    return '(py_dict_get %s %s %s %s)' % (self.eqb(kt), d, dx, kx), dt[2]
                if f.attr == 'copy' and not n.args:
                    return dx, dt
                if f.attr == 'items' and not n.args:
                    return dx, ('list', ('pair', dt[1], dt[2]))
            if f.attr in ('pop', 'popitem'):
                raise Unsupported('%s in this position' % ast.unparse(n)[:50])
        return Translator.e_Call(self, n, env)

    # ---------------------------------------------------------------- analysis
    def assigned(self, stmts):
        """environment keys (re)bound or mutated by a statement list, aliases resolved"""
        out = []

        def add(x):
            x = self.alias.get(x, x)
            if x not in out:
                out.append(x)

        def target(t):
            if isinstance(t, ast.Name):
                add(t.id)
            elif isinstance(t, ast.Subscript) and isinstance(t.value, ast.Name):
                add(t.value.id)
            elif isinstance(t, ast.Tuple):
                for e in t.elts:
                    target(e)
            else:
                raise Unsupported('assignment target %s' % ast.unparse(t)[:50])

        def effects(node):
            for x in ast.walk(node):
                if isinstance(x, ast.Call) and isinstance(x.func, ast.Attribute):
                    a = x.func
                    if a.attr in ('pop', 'popitem', 'clear', 'update', 'setdefault', 'append', 'extend', 'insert', 'remove',
                                  'sort', 'reverse', 'add', 'discard', '__setitem__', '__delitem__'):
                        if not isinstance(a.value, ast.Name):
                            raise Unsupported('mutating call %s' % ast.unparse(x)[:50])
                        add(a.value.id)
                    elif isinstance(a.value, ast.Name) and a.value.id == self.obj:
                        if a.attr == 'modify':
                            for kw in x.keywords:
                                if kw.arg not in FTYPE:
                                    raise Unsupported('modify(%s=...)' % kw.arg)
                                add(ST[kw.arg])
                        elif a.attr in CALLABLE_INPLACE:
                            for fld, _ in FIELDS:
                                add(ST[fld])
                        else:
                            raise Unsupported('call of .%s on the array' % a.attr)
                    elif isinstance(a.value, ast.Name) and a.value.id == 'AbelianArray':
                        add(ST['indices'])
                        add(ST['blocks'])

        for s in stmts:
            if isinstance(s, ast.Assign):
                for t in s.targets:
                    target(t)
                effects(s.value)
            elif isinstance(s, ast.AugAssign):
                target(s.target)
                effects(s.value)
            elif isinstance(s, ast.Expr):
                effects(s.value)
            elif isinstance(s, ast.If):
                effects(s.test)
                for x in self.assigned(s.body) + self.assigned(s.orelse):
                    add(x)
            elif isinstance(s, ast.For):
                target(s.target)
                effects(s.iter)
                for x in self.assigned(s.body):
                    add(x)
            elif isinstance(s, ast.While):
                effects(s.test)
                for x in self.assigned(s.body):
                    add(x)
            elif isinstance(s, ast.Try):
                for h in s.handlers:
                    for x in self.assigned(h.body):
                        add(x)
                for x in self.assigned(s.body) + self.assigned(s.orelse) + self.assigned(s.finalbody):
                    add(x)
            elif isinstance(s, ast.Return):
                if s.value is not None:
                    effects(s.value)
            elif isinstance(s, ast.Pass):
                pass
            else:
                raise Unsupported('statement %s' % type(s).__name__)
        return out

    def mentions(self, node, key):
        return any(isinstance(x, ast.Name) and self.alias.get(x.id, x.id) == key for x in ast.walk(node))

    def pops_in(self, node):
        return [x for x in ast.walk(node) if isinstance(x, ast.Call) and isinstance(x.func, ast.Attribute)
                and x.func.attr in ('pop', 'popitem')]

    def hoist_pop(self, node, env):
        """at most one `d.pop(k, default)` inside an expression: evaluated first (nothing else in the expression may
        mention d), returns (let-prefix, rewritten expression, env', number of parentheses to close)"""
        pops = self.pops_in(node)
        if not pops:
            return '', node, env, 0
        if len(pops) > 1:
            raise Unsupported('several .pop in one expression')
        p = pops[0]
        if p.func.attr != 'pop' or len(p.args) != 2 or p.keywords:
            raise Unsupported('%s in this position' % ast.unparse(p)[:50])
        k, dx, dt = self.dict_name(p.func.value, env)
        marker = ast.Name(id='%popped', ctx=ast.Load())

        class Sub(ast.NodeTransformer):
            def visit_Call(s, x):
                return marker if x is p else s.generic_visit(x)
        node2 = Sub().visit(copy.deepcopy(node)) if False else None
        # (deepcopy would lose the identity of p: substitute on the original tree, on a shallow path copy)
        node2 = self._subst(node, p, marker)
        if self.mentions(node2, k):
            raise Unsupported('%s is read in the same expression as its .pop' % p.func.value.id)
        kx, kt = self.expr(p.args[0], env)
        d, tdv = self.expr(p.args[1], env)
        if kt != dt[1] or tdv != dt[2]:
            raise Unsupported('.pop(%r, %r) on %r' % (kt, tdv, dt))
        tmp = self.fresh('popped')
        pre = '(let %s := (py_dict_get %s %s %s %s) in ' % (tmp, self.eqb(kt), d, dx, kx)
        pre2, env2 = self.bind(env, k, '(dpop %s %s %s)' % (self.eqb(kt), kx, dx), dt)
        env2['%popped'] = (tmp, dt[2])
        return pre + pre2, node2, env2, 2

    def _subst(self, node, old, new):
        if node is old:
            return new
        if isinstance(node, ast.AST):
            out = copy.copy(node)
            for fld, val in ast.iter_fields(node):
                if isinstance(val, list):
                    setattr(out, fld, [self._subst(v, old, new) for v in val])
                elif isinstance(val, ast.AST):
                    setattr(out, fld, self._subst(val, old, new))
            return out
        return node

    # ---------------------------------------------------------------- statements
    def block(self, stmts, env, ret_t, tail):
        if not stmts:
            return tail(env)
        s, rest = stmts[0], list(stmts[1:])
        go = lambda e: self.block(rest, e, ret_t, tail)   # noqa: E731

        if isinstance(s, ast.Return):
            v = s.value
            if isinstance(v, ast.Name) and v.id == self.obj:
                return self.state_result(env)
            if isinstance(v, ast.Call) and self.is_obj_call(v, 'modify'):
                return self.block([ast.Expr(value=v), ast.Return(value=ast.Name(id=self.obj, ctx=ast.Load()))], env, ret_t, tail)
            raise Unsupported('return of something else than the array: %s' % ast.unparse(s)[:60])

        if isinstance(s, ast.Assign) and len(s.targets) == 1:
            tgt, val = s.targets[0], s.value
            if isinstance(tgt, ast.Name):
                if tgt.id == self.obj or tgt.id in ST_INV or tgt.id in self.alias:
                    if tgt.id not in ST_INV:
                        raise Unsupported('%s is rebound' % tgt.id)
                # function aliases: _conj = <backend conj>, parity_of = new.symmetry.parity
                if isinstance(val, ast.Name) and self.builtin(val) is not None and val.id not in env:
                    if self.depth:
                        raise Unsupported('function alias inside a branch or loop')
                    self.fnalias[tgt.id] = self.builtin(val)
                    return go(env)
                # alias of a dict (state field or local)
                if isinstance(val, ast.Name):
                    k = self.res(val.id)
                    if k in env and env[k][1][0] in ('dict',):
                        if k not in ST_INV:
                            raise Unsupported('`%s = %s` would alias a local dict' % (tgt.id, val.id))
                        if self.depth:
                            raise Unsupported('alias of the sign table created inside a branch or loop')
                        if tgt.id in env:
                            raise Unsupported('alias name %s is already bound' % tgt.id)
                        self.alias[tgt.id] = k
                        self.notes.append('a name bound to new.%s is an alias of the field' % ST_INV[k])
                        return go(env)
                # {} typed by the modify() it is handed to
                if isinstance(val, ast.Dict) and not val.keys:
                    if tgt.id not in self.fresh_types:
                        raise Unsupported('`%s = {}` is not handed to new.modify(...)' % tgt.id)
                    t = self.fresh_types[tgt.id]
                    pre, env2 = self.bind(env, tgt.id, '(@nil (%s * %s))' % (ty_str(t[1]), ty_str(t[2])), t)
                    return pre + go(env2) + ')'
                pre0, val2, env1, npar = self.hoist_pop(val, env)
                if isinstance(val2, ast.DictComp):
                    x, t = self.dictcomp(val2, env1)
                else:
                    x, t = self.expr(val2, env1)
                if t == 'none':
                    raise Unsupported('None assigned to %s' % tgt.id)
                env1 = {k: v for k, v in env1.items() if k != '%popped'}
                if tgt.id in ST_INV:
                    if t != FTYPE[ST_INV[tgt.id]]:
                        raise Unsupported('field %s set to a value of type %r' % (ST_INV[tgt.id], t))
                    for a, k in list(self.alias.items()):
                        if k == tgt.id:
                            del self.alias[a]
                            self.poisoned[a] = 'the field it aliased was replaced'
                elif tgt.id in env and env[tgt.id][1] != t and not (env[tgt.id][1][0] == 'opt'):
                    raise Unsupported('%s changes its type from %r to %r' % (tgt.id, env[tgt.id][1], t))
                pre, env2 = self.bind(env1, tgt.id, x, t)
                return pre0 + pre + go(env2) + ')' * (npar + 1)
            if isinstance(tgt, ast.Subscript) and not isinstance(tgt.slice, ast.Slice):
                k, dx, dt = self.dict_name(tgt.value, env)
                kx, kt = self.expr(tgt.slice, env)
                x, t = self.expr(val, env)
                if kt != dt[1] or t != dt[2]:
                    raise Unsupported('d[%r] = %r on %r' % (kt, t, dt))
                pre, env2 = self.bind(env, k, '(dset %s %s %s %s)' % (self.eqb(kt), kx, x, dx), dt)
                return pre + go(env2) + ')'
            if isinstance(tgt, ast.Tuple):
                raise Unsupported('tuple assignment outside `k, v = d.popitem()`')
            raise Unsupported('assignment target %s' % ast.unparse(tgt)[:50])

        if isinstance(s, ast.AugAssign):
            if not isinstance(s.target, ast.Name) or s.target.id in ST_INV or self.res(s.target.id) != s.target.id:
                raise Unsupported('augmented assignment target')
            if self.pops_in(s.value):
                raise Unsupported('.pop inside an augmented assignment')
            if s.target.id not in env or env[s.target.id][1] != 'Z':
                raise Unsupported('augmented assignment on a non-int')
            return Translator.block(self, stmts, env, ret_t, tail)

        if isinstance(s, ast.Expr) and isinstance(s.value, ast.Call):
            c = s.value
            f = c.func
            if self.is_obj_call(c, 'modify'):
                if c.args or not c.keywords:
                    raise Unsupported('modify with positional arguments')
                vals = []
                for kw in c.keywords:
                    if kw.arg not in FTYPE:
                        raise Unsupported('modify(%s=...)' % kw.arg)
                    if self.pops_in(kw.value):
                        raise Unsupported('.pop inside modify(...)')
                    x, t = self.expr(kw.value, env)
                    if t != FTYPE[kw.arg]:
                        raise Unsupported('modify(%s=<%r>)' % (kw.arg, t))
                    vals.append((kw, x, t))
                pre_all, env2 = '', env
                tmps = []
                for kw, x, t in vals:                       # all values first
                    tmp = self.fresh('arg')
                    pre_all += '(let %s := %s in ' % (tmp, x)
                    tmps.append(tmp)
                for (kw, x, t), tmp in zip(vals, tmps):     # then the fields
                    key = ST[kw.arg]
                    for a, k in list(self.alias.items()):
                        if k == key:
                            del self.alias[a]
                            self.poisoned[a] = 'the field it aliased was replaced by modify'
                    if isinstance(kw.value, ast.Name) and t[0] == 'dict':
                        if self.depth:
                            raise Unsupported('modify(%s=<dict name>) inside a branch or loop' % kw.arg)
                        # the local and the field are now one object: the local may not be used any more
                        self.poisoned[kw.value.id] = 'it was handed to modify (the array owns it now)'
                    pre, env2 = self.bind(env2, key, tmp, t)
                    pre_all += pre
                return pre_all + go(env2) + ')' * (2 * len(vals))
            for m in CALLABLE_INPLACE:
                if self.is_obj_call(c, m):
                    if len(c.keywords) != 1 or c.keywords[0].arg != 'inplace' or \
                            not (isinstance(c.keywords[0].value, ast.Constant) and c.keywords[0].value.value is True):
                        raise Unsupported('%s on the array must be called with inplace=True' % m)
                    args = []
                    if m == 'phase_global':
                        if c.args:
                            raise Unsupported('phase_global with arguments')
                    else:
                        if len(c.args) != 1 or not isinstance(c.args[0], ast.Starred):
                            raise Unsupported('phase_flip must be called as phase_flip(*axes, inplace=True)')
                        x, t = self.expr(c.args[0].value, env)
                        if t != LZ:
                            raise Unsupported('phase_flip(*<%r>)' % (t,))
                        args.append(x)
                    call = '(%s_gen %s)' % (m, ' '.join([env[ST[fld]][0] for fld, _ in FIELDS] + args))
                    return self.rebind_state(call, env, go)
            if isinstance(f, ast.Attribute) and isinstance(f.value, ast.Name) and f.value.id == 'AbelianArray' and f.attr == 'transpose':
                if len(c.args) != 2 or not (isinstance(c.args[0], ast.Name) and c.args[0].id == self.obj) or len(c.keywords) != 1 \
                        or c.keywords[0].arg != 'inplace' or not (isinstance(c.keywords[0].value, ast.Constant)
                                                                  and c.keywords[0].value.value is True):
                    raise Unsupported('AbelianArray.transpose must be called as (new, axes, inplace=True)')
                x, t = self.expr(c.args[1], env)
                if t != LZ:
                    raise Unsupported('AbelianArray.transpose axes of type %r' % (t,))
                self.notes.append('AbelianArray.transpose(new, axes, inplace=True): block data movement, the Section variable abelian_transpose')
                vi, vb = self.fresh('ix'), self.fresh('bl')
                env2 = dict(env)
                env2[ST['indices']] = (vi, FTYPE['indices'])
                env2[ST['blocks']] = (vb, FTYPE['blocks'])
                return "(let '(%s, %s) := (abelian_transpose %s %s %s) in %s)" % (
                    vi, vb, env[ST['indices']][0], env[ST['blocks']][0], x, go(env2))
            if isinstance(f, ast.Attribute) and f.attr == 'pop' and isinstance(f.value, ast.Name):
                k, dx, dt = self.dict_name(f.value, env)
                if c.keywords or len(c.args) != 2:
                    raise Unsupported('.pop as a statement needs (key, default)')
                kx, kt = self.expr(c.args[0], env)
                if kt != dt[1]:
                    raise Unsupported('.pop key type')
                d, tdv = self.expr(c.args[1], env)
                if tdv not in ('none', dt[2]):
                    raise Unsupported('.pop default type')
                pre, env2 = self.bind(env, k, '(dpop %s %s %s)' % (self.eqb(kt), kx, dx), dt)
                return pre + go(env2) + ')'
            raise Unsupported('call statement %s' % ast.unparse(s)[:60])

        if isinstance(s, ast.If):
            t_ = s.test
            # `if x is None: x = e`
            if isinstance(t_, ast.Compare) and len(t_.ops) == 1 and isinstance(t_.ops[0], ast.Is) and isinstance(t_.left, ast.Name) \
                    and isinstance(t_.comparators[0], ast.Constant) and t_.comparators[0].value is None:
                nm = t_.left.id
                if self.res(nm) != nm or nm not in env or env[nm][1][0] != 'opt':
                    raise Unsupported('is None on %s' % nm)
                if s.orelse or len(s.body) != 1 or not (isinstance(s.body[0], ast.Assign) and len(s.body[0].targets) == 1
                                                        and isinstance(s.body[0].targets[0], ast.Name) and s.body[0].targets[0].id == nm):
                    raise Unsupported('`if %s is None:` must only assign %s' % (nm, nm))
                if self.pops_in(s.body[0].value):
                    raise Unsupported('.pop in a default value')
                x, t = self.expr(s.body[0].value, env)
                if t != env[nm][1][1]:
                    raise Unsupported('default of %s has type %r' % (nm, t))
                v = self.fresh(nm)
                pre, env2 = self.bind(env, nm, '(match %s with None => %s | Some %s => %s end)' % (env[nm][0], x, v, v), t)
                return pre + go(env2) + ')'
            pre0, test2, env1, npar = self.hoist_pop(t_, env)
            s2 = ast.If(test=test2, body=s.body, orelse=s.orelse)
            inner = self.translate_if(s2, rest, env1, ret_t, tail)
            return pre0 + inner + ')' * npar

        if isinstance(s, ast.For):
            if s.orelse:
                raise Unsupported('for ... else')
            for x in ast.walk(s):
                if isinstance(x, (ast.Break, ast.Continue, ast.Return)):
                    raise Unsupported('%s inside a for loop' % type(x).__name__)
            if self.pops_in(s.iter):
                raise Unsupported('.pop in a loop header')
            it = s.iter
            if isinstance(it, ast.Call) and isinstance(it.func, ast.Attribute) and it.func.attr == 'items' and isinstance(it.func.value, ast.Name):
                k = self.res(it.func.value.id)
                if k in self.assigned(s.body):
                    keyvar = s.target.elts[0].id if isinstance(s.target, ast.Tuple) and s.target.elts and isinstance(s.target.elts[0], ast.Name) else None
                    self.check_own_key_updates(s.body, k, keyvar)
                    self.notes.append('for k, v in d.items() whose body only does d[k] = ...: iterates over the items as they were at the start')
            else:
                for x in ast.walk(it):
                    if isinstance(x, ast.Name) and self.alias.get(x.id, x.id) in self.assigned(s.body):
                        raise Unsupported('the loop body updates what its iterable reads')
            d0 = self.depth

            def after(e):
                d1, self.depth = self.depth, d0
                try:
                    return self.block(rest, e, ret_t, tail)
                finally:
                    self.depth = d1
            self.depth += 1
            try:
                return Translator.block(self, [s], env, ret_t, after)
            finally:
                self.depth = d0

        if isinstance(s, ast.While):
            return self.while_popitem(s, rest, env, ret_t, tail)

        if isinstance(s, ast.Try):
            return self.try_keyerror(s, rest, env, ret_t, tail)

        if isinstance(s, (ast.Pass,)) or (isinstance(s, ast.Expr) and isinstance(s.value, ast.Constant) and isinstance(s.value.value, str)):
            return go(env)
        raise Unsupported('statement %s' % ast.unparse(s)[:60])

    def translate_if(self, s, rest, env, ret_t, tail):
        """base-class `if` (state tuple of the assigned names / both branches continue when one returns)"""
        stmts = [s] + list(rest)
        c = self.as_bool(*self.expr(s.test, env))
        env = {k: v for k, v in env.items() if k != '%popped'}
        if self.has_return(s.body) or self.has_return(s.orelse):
            if self.depth > 0:
                raise Unsupported('return inside a nested branch')
            # an early exit at the top level of the method: both continuations are top-level code
            al, fa, po = dict(self.alias), dict(self.fnalias), dict(self.poisoned)
            a = self.block(list(s.body) + list(rest), env, ret_t, tail)
            self.alias, self.fnalias, self.poisoned = al, fa, po
            b = self.block(list(s.orelse) + list(rest), env, ret_t, tail)
            return '(if %s then %s else %s)' % (c, a, b)
        def top_assigned(stmts):
            return {t.id for st in stmts if isinstance(st, ast.Assign) and len(st.targets) == 1
                    for t in st.targets if isinstance(t, ast.Name)}
        both = top_assigned(s.body) & top_assigned(s.orelse)
        names = [x for x in self.assigned(s.body) + self.assigned(s.orelse) if x in env or x in both]
        names = list(dict.fromkeys(names))
        got = {}

        def tl(tag):
            def f(e):
                got[tag] = [e[k][1] for k in names]
                return self.state_tuple(names, e)
            return f
        self.depth += 1
        try:
            a = self.block(list(s.body), env, None, tl('a'))
            b = self.block(list(s.orelse), env, None, tl('b'))
        finally:
            self.depth -= 1
        if got['a'] != got['b'] or any(k in env and env[k][1] != t for k, t in zip(names, got['a'])):
            raise Unsupported('a branch changes the type of one of %r' % names)
        env_t = dict(env)
        for k, t in zip(names, got['a']):
            if k not in env_t:
                env_t[k] = (None, t)
        pat, env2 = self.state_pattern(names, env_t)
        return '(let %s := (if %s then %s else %s) in %s)' % (pat, c, a, b, self.block(list(rest), env2, ret_t, tail))

    def is_obj_call(self, c, meth):
        f = c.func
        return isinstance(f, ast.Attribute) and f.attr == meth and isinstance(f.value, ast.Name) and f.value.id == self.obj

    def rebind_state(self, call, env, go):
        env2 = dict(env)
        vs = []
        for fld, t in FIELDS:
            v = self.fresh(fld)
            env2[ST[fld]] = (v, t)
            vs.append(v)
        for a in list(self.alias):
            # the callee may have replaced the table: an alias taken before the call is stale
            del self.alias[a]
            self.poisoned[a] = 'a method was called on the array'
        return "(let '(%s) := %s in %s)" % (', '.join(vs), call, go(env2))

    def check_own_key_updates(self, body, dkey, keyvar):
        if keyvar is None:
            raise Unsupported('loop over d.items() that updates d needs a `k, v` target')
        for x in ast.walk(ast.Module(body=list(body), type_ignores=[])):
            if isinstance(x, (ast.Assign, ast.AugAssign)):
                tg = x.targets if isinstance(x, ast.Assign) else [x.target]
                for t in tg:
                    for y in ast.walk(t):
                        if isinstance(y, ast.Name) and y.id == keyvar and not isinstance(t, ast.Subscript):
                            raise Unsupported('the loop key is reassigned')
                    if isinstance(t, ast.Subscript) and isinstance(t.value, ast.Name) and self.alias.get(t.value.id, t.value.id) == dkey:
                        if not (isinstance(t.slice, ast.Name) and t.slice.id == keyvar):
                            raise Unsupported('d[...] = ... for another key than the loop key while iterating over d.items()')
            if isinstance(x, ast.Call) and isinstance(x.func, ast.Attribute) and isinstance(x.func.value, ast.Name) \
                    and self.alias.get(x.func.value.id, x.func.value.id) == dkey and x.func.attr not in ('get', 'items', 'copy'):
                raise Unsupported('d.%s while iterating over d.items()' % x.func.attr)
            if isinstance(x, ast.Call) and isinstance(x.func, ast.Attribute) and isinstance(x.func.value, ast.Name) \
                    and x.func.value.id in (self.obj, 'AbelianArray'):
                raise Unsupported('method call on the array while iterating over one of its dicts')

    def dictcomp(self, n, env):
        """{k: v for p in it if c}: successive d[k] = v on the empty dict"""
        if len(n.generators) != 1:
            raise Unsupported('dict comprehension with several generators')
        g = n.generators[0]
        if self.pops_in(n):
            raise Unsupported('.pop in a comprehension')
        it, tit = self.expr(g.iter, env)
        if tit[0] != 'list':
            raise Unsupported('comprehension over %r' % (tit,))
        pat, env2 = self.pattern(g.target, tit[1], env)
        for c in g.ifs:
            cx = self.as_bool(*self.expr(c, env2))
            it = '(filter (fun %s => %s) %s)' % (pat, cx, it)
        k, tk = self.expr(n.key, env2)
        v, tv = self.expr(n.value, env2)
        acc = self.fresh('acc')
        return '(fold_left (fun %s %s => dset %s %s %s %s) %s [])' % (acc, pat, self.eqb(tk), k, v, acc, it), ('dict', tk, tv)

    def e_DictComp(self, n, env):
        return self.dictcomp(n, env)

    def while_popitem(self, s, rest, env, ret_t, tail):
        """while d: k, v = d.popitem(); body   (body does not mention d)"""
        if s.orelse or not isinstance(s.test, ast.Name):
            raise Unsupported('while loop other than `while d: k, v = d.popitem(); ...`')
        dkey, dx, dt = self.dict_name(s.test, env)
        if not s.body:
            raise Unsupported('empty while')
        first = s.body[0]
        ok = isinstance(first, ast.Assign) and len(first.targets) == 1 and isinstance(first.targets[0], ast.Tuple) \
            and len(first.targets[0].elts) == 2 and all(isinstance(e, ast.Name) for e in first.targets[0].elts) \
            and isinstance(first.value, ast.Call) and isinstance(first.value.func, ast.Attribute) and first.value.func.attr == 'popitem' \
            and not first.value.args and not first.value.keywords and isinstance(first.value.func.value, ast.Name) \
            and self.res(first.value.func.value.id) == dkey
        if not ok:
            raise Unsupported('while loop other than `while d: k, v = d.popitem(); ...`')
        body = list(s.body[1:])
        for st in body:
            for x in ast.walk(st):
                if isinstance(x, (ast.Break, ast.Continue, ast.Return, ast.While)):
                    raise Unsupported('%s inside the while loop' % type(x).__name__)
                if isinstance(x, ast.Call) and isinstance(x.func, ast.Attribute) and isinstance(x.func.value, ast.Name) \
                        and x.func.value.id in (self.obj, 'AbelianArray'):
                    raise Unsupported('method call on the array inside the while loop')
            if self.mentions(st, dkey):
                raise Unsupported('the body of `while d: k, v = d.popitem()` mentions d')
        kn, vn = (e.id for e in first.targets[0].elts)
        if kn == vn or kn in env or vn in env or self.res(kn) != kn or self.res(vn) != vn:
            raise Unsupported('loop variables of the popitem loop shadow something')
        self.notes.append('`while d: k, v = d.popitem(); body` (body does not mention d) = fold of body over rev(items of d), then d = {}')
        names = [x for x in self.assigned(body) if x in env]
        self.depth += 1
        try:
            spat, env_in = self.state_pattern(names, env)
            kv, vv = self.fresh('k'), self.fresh('v')
            env_in[kn] = (kv, dt[1])
            env_in[vn] = (vv, dt[2])
            got = {}

            def tl(e):
                got['t'] = [e[k][1] for k in names]
                return self.state_tuple(names, e)
            btxt = self.block(body, env_in, None, tl)
        finally:
            self.depth -= 1
        if got['t'] != [env[k][1] for k in names]:
            raise Unsupported('the loop body changes the type of a state variable')
        init = self.state_tuple(names, env)
        pat, env2 = self.state_pattern(names, env)
        pre, env3 = self.bind(env2, dkey, '(@nil (%s * %s))' % (ty_str(dt[1]), ty_str(dt[2])), dt)
        return "(let %s := (fold_left (fun %s '(%s, %s) => %s) (rev %s) %s) in %s%s))" % (
            pat, spat, kv, vv, btxt, dx, init, pre, self.block(rest, env3, ret_t, tail))

    def try_keyerror(self, s, rest, env, ret_t, tail):
        """try: d[k] = f(d[k])  except KeyError: pass"""
        ok = len(s.handlers) == 1 and not s.orelse and not s.finalbody and len(s.body) == 1 \
            and isinstance(s.handlers[0].type, ast.Name) and s.handlers[0].type.id == 'KeyError' and s.handlers[0].name is None \
            and all(isinstance(h, ast.Pass) or (isinstance(h, ast.Expr) and isinstance(h.value, ast.Constant)) for h in s.handlers[0].body)
        a = s.body[0] if ok else None
        ok = ok and isinstance(a, ast.Assign) and len(a.targets) == 1 and isinstance(a.targets[0], ast.Subscript) \
            and isinstance(a.targets[0].value, ast.Name) and not isinstance(a.targets[0].slice, ast.Slice)
        if not ok:
            raise Unsupported('try statement other than `try: d[k] = f(d[k]) except KeyError: pass`')
        tgt = a.targets[0]
        dkey, dx, dt = self.dict_name(tgt.value, env)
        kx, kt = self.expr(tgt.slice, env)
        if kt != dt[1]:
            raise Unsupported('key type in try')
        kdump = ast.dump(tgt.slice)
        marker = ast.Name(id='%cur', ctx=ast.Load())
        reads = [x for x in ast.walk(a.value) if isinstance(x, ast.Subscript) and isinstance(x.value, ast.Name)
                 and self.alias.get(x.value.id, x.value.id) == dkey]
        if not reads or any(ast.dump(r.slice) != kdump for r in reads):
            raise Unsupported('the value assigned in the try must read d[k] for the same key (the only source of KeyError)')
        val = a.value
        for r in reads:
            val = self._subst(val, r, marker)
        if self.mentions(val, dkey) or self.pops_in(val):
            raise Unsupported('try body reads the dict in another way')
        for x in ast.walk(val):
            if isinstance(x, ast.Subscript):
                raise Unsupported('another subscript inside the try (IndexError / KeyError sources must be the one d[k])')
        cur = self.fresh('cur')
        x, t = self.expr(val, {**env, '%cur': (cur, dt[2])})
        if t != dt[2]:
            raise Unsupported('try assigns %r into %r' % (t, dt))
        pre, env2 = self.bind(env, dkey, '(match lookup %s %s %s with Some %s => dset %s %s %s %s | None => %s end)' % (
            self.eqb(kt), kx, dx, cur, self.eqb(kt), kx, x, dx, dx), dt)
        return pre + self.block(rest, env2, ret_t, tail) + ')'


# ------------------------------------------------------------------ one method
FIRST = ast.dump(ast.parse('new = self if inplace else self.copy()').body[0].value)


def translate_method(fdef, spec, notes, permuted_ok):
    name, params, vararg = spec
    a = fdef.args
    if fdef.decorator_list or a.posonlyargs or a.kwarg:
        raise Unsupported('signature of %s' % name)
    pos = [x.arg for x in a.args]
    if vararg is None:
        # (self, p1=.., ..., inplace=False)
        if a.vararg or a.kwonlyargs or pos != ['self'] + [p for p, _, _ in params] + ['inplace']:
            raise Unsupported('parameters of %s: %r' % (name, pos))
        want = [d for _, _, d in params if d != '<required>'] + [False]
        got = [d.value if isinstance(d, ast.Constant) else '<expr>' for d in a.defaults]
        if got != want or any(type(g) is not type(w) for g, w in zip(got, want)):
            raise Unsupported('defaults of %s: %r' % (name, got))
    else:
        if pos != ['self'] or a.vararg is None or [k.arg for k in a.kwonlyargs] != ['inplace'] or \
                not (isinstance(a.kw_defaults[0], ast.Constant) and a.kw_defaults[0].value is False):
            raise Unsupported('parameters of %s' % name)
    body = strip_doc(fdef.body)
    if not body or not (isinstance(body[0], ast.Assign) and len(body[0].targets) == 1 and isinstance(body[0].targets[0], ast.Name)
                        and ast.dump(body[0].value) == FIRST):
        raise Unsupported('%s does not start with `new = self if inplace else self.copy()`' % name)
    obj = body[0].targets[0].id
    body = body[1:]
    for st in body:
        for x in ast.walk(st):
            if isinstance(x, ast.Name) and x.id in ('self', 'inplace'):
                raise Unsupported('%s mentions %s after the first statement' % (name, x.id))
            if isinstance(x, (ast.Global, ast.Nonlocal, ast.Lambda, ast.FunctionDef, ast.AsyncFunctionDef, ast.ClassDef, ast.With,
                              ast.Yield, ast.YieldFrom, ast.Await, ast.NamedExpr, ast.Delete, ast.Raise, ast.Assert, ast.Import,
                              ast.ImportFrom, ast.Starred)) and not (isinstance(x, ast.Starred) and name in ('conj', 'dagger')):
                raise Unsupported('%s inside %s' % (type(x).__name__, name))
            if isinstance(x, ast.Name) and x.id.startswith('__'):
                raise Unsupported('reserved name %s' % x.id)
    body = [Rewriter(obj).visit(st) for st in body]
    for st in body:
        ast.fix_missing_locations(st)
    # `name = {}` typed by the modify() it is handed to
    fresh_types = {}
    for st in body:
        for x in ast.walk(st):
            if isinstance(x, ast.Call) and isinstance(x.func, ast.Attribute) and x.func.attr == 'modify' \
                    and isinstance(x.func.value, ast.Name) and x.func.value.id == obj:
                for kw in x.keywords:
                    if isinstance(kw.value, ast.Name) and kw.arg in FTYPE and FTYPE[kw.arg][0] == 'dict':
                        if fresh_types.get(kw.value.id, FTYPE[kw.arg]) != FTYPE[kw.arg]:
                            raise Unsupported('%s handed to modify as two different fields' % kw.value.id)
                        fresh_types[kw.value.id] = FTYPE[kw.arg]
    T = PhasesTranslator(notes, obj, fresh_types, permuted_ok)
    env = {}
    binders = []
    for fld, t in FIELDS:
        env[ST[fld]] = (fld, t)
        binders.append('(%s : %s)' % (fld, ty_str(t)))
    plist = [(p, t) for p, t, _ in params] + ([vararg] if vararg else [])
    for i, (p, t) in enumerate(plist):
        if p == obj or p in ST_INV:
            raise Unsupported('parameter name %s' % p)
        env[p] = ('a%d' % i, t)
        binders.append('(a%d : %s)' % (i, ty_str(t)))

    def fall(e):
        raise Unsupported('%s may end without `return new`' % name)
    txt = T.block(body, env, None, fall)
    return '  Definition %s_gen %s : %s :=\n    %s.\n' % (name, ' '.join(binders), STATE_TY, txt)


def generate(repo):
    src = {f: open(os.path.join(repo, 'symmray', f + '.py')).read() for f in ('fermionic_core', 'abelian_core', 'block_core', 'symmetries')}
    trees = {f: ast.parse(s) for f, s in src.items()}
    check_expected([trees['fermionic_core'], trees['abelian_core'], trees['block_core']])
    check_no_sign_table_in_abelian(trees['abelian_core'])
    check_no_sign_table_in_abelian(trees['block_core'])
    check_sign_defaults(trees['symmetries'])
    # oddpos_dag / the operator representation rest on Gen/OpOrder.v
    gen_oporder.find(trees['fermionic_core'].body, ast.FunctionDef, 'oddpos_dag')
    for nm in ('calc_phase_permutation', 'permuted', 'oddpos_dag', 'AbelianArray'):
        # the names the methods call must be the module-level ones (not rebound in fermionic_core.py)
        for n in trees['fermionic_core'].body:
            if isinstance(n, (ast.Assign, ast.AugAssign, ast.AnnAssign)):
                for x in ast.walk(n):
                    if isinstance(x, ast.Name) and x.id == nm and isinstance(x.ctx, ast.Store):
                        raise Unsupported('%s is rebound at module level' % nm)
            if isinstance(n, (ast.FunctionDef, ast.ClassDef)) and n.name == nm and nm != 'oddpos_dag':
                raise Unsupported('%s is redefined in fermionic_core.py' % nm)
    imp = [n for n in trees['fermionic_core'].body if isinstance(n, ast.ImportFrom)]
    imported = {(n.module, a.name, a.asname) for n in imp for a in n.names}
    for need in (('abelian_core', 'AbelianArray', None), ('abelian_core', 'permuted', None), ('symmetries', 'calc_phase_permutation', None)):
        if need not in imported:
            raise Unsupported('fermionic_core.py does not import %s from .%s' % (need[1], need[0]))

    notes = []
    out = [PREAMBLE]
    # permuted(it, perm) of abelian_core.py
    Tp = Translator({}, notes, defaults={'Ch': '(ident G)'}, pyindex=True)
    Tp.fresh = lambda base: (setattr(Tp, 'counter', Tp.counter + 1) or 'p%d' % Tp.counter)
    pf = find(trees['abelian_core'].body, ast.FunctionDef, 'permuted')
    if pf.decorator_list:
        raise Unsupported('permuted is decorated')
    out.append('  ' + Tp.function(pf, 'permuted_gen', [('it', SECTOR), ('perm', LZ)], SECTOR).replace('\n', '\n  ').rstrip() + '\n')
    cls = find(trees['fermionic_core'].body, ast.ClassDef, 'FermionicArray')
    for spec in METHODS:
        defs = [f for f in cls.body if isinstance(f, ast.FunctionDef) and f.name == spec[0]]
        if len(defs) != 1:
            raise Unsupported('%d definitions of FermionicArray.%s' % (len(defs), spec[0]))
        out.append(translate_method(defs[0], spec, notes, True))
    out.append('End Phases.\n')
    out.append('(* projections of the state (indices, charge, blocks, phases, oddpos) *)\n'
               'Definition st_indices {A B C D E} (s : A * B * C * D * E) : A := let \'(a, _, _, _, _) := s in a.\n'
               'Definition st_charge {A B C D E} (s : A * B * C * D * E) : B := let \'(_, b, _, _, _) := s in b.\n'
               'Definition st_blocks {A B C D E} (s : A * B * C * D * E) : C := let \'(_, _, c, _, _) := s in c.\n'
               'Definition st_phases {A B C D E} (s : A * B * C * D * E) : D := let \'(_, _, _, d, _) := s in d.\n'
               'Definition st_oddpos {A B C D E} (s : A * B * C * D * E) : E := let \'(_, _, _, _, e) := s in e.\n')
    if notes:
        out.append('(* translator notes:\n' + '\n'.join('   ' + n for n in sorted(set(notes))) + '\n*)')
    return '\n'.join(out) + '\n'


def generate_all(repo):
    return {'PhasesGen.v': generate(repo)}


if __name__ == '__main__':
    print(generate(os.environ.get('SYMMRAY_REPO', '/repo')))
