"""Regenerate coq/Gen/Interface.v from $SYMMRAY_REPO/symmray/interface.py.

Pure data: one `ientry` per public top-level def, classified by the exact
syntactic shape of its body.  Anything that is not recognised is emitted as
IOther / AOther / other_toplevel text (so it shows up in the data and the
theorems of Proofs/InterfaceProofs.v stop holding); Unsupported is raised only
for a missing or unparsable file."""
import ast
import os
import sys

sys.path.insert(0, os.path.dirname(os.path.abspath(__file__)))
from pygallina import Unsupported  # noqa: E402

HEADER = '''From Coq Require Import List String.
Import ListNotations.
Local Open Scope string_scope.

Inductive iarg :=
  | APos (param : string)      (* positional argument: the parameter `param` *)
  | AStar (param : string)     (* *param  (varargs forwarded) *)
  | AKwargs (param : string)   (* **param (kwargs forwarded) *)
  | AOther (text : string).    (* anything else, as unparsed text *)

Inductive ikind :=
  | IForward (method : string) (receiver : string) (args : list iarg)
      (* body is exactly `return <receiver>.<method>(<args>)` *)
  | ITryForward (method : string) (receiver : string) (args : list iarg) (fallback : string)
      (* body is exactly
           try: return <receiver>.<method>(<args>)
           except AttributeError: return ar.do("<fallback>", <receiver>) *)
  | IDispatch (body : string)
      (* decorated with exactly functools.singledispatch; body = unparsed body without docstring *)
  | IOther (text : string).
      (* anything else: decorators (if any) and unparsed body without docstring *)

Record ientry := {
  iname : string;
  iparams : list iarg;                 (* the def's parameters in order *)
  idefaults : list (string * string);  (* (param, unparsed default) *)
  ikind_of : ikind }.
'''


def q(s):
    """Coq string literal."""
    return '"' + s.replace('"', '""') + '"'


def coq_list(items, indent='  '):
    if not items:
        return '[]'
    return '[\n' + ';\n'.join(indent + '  ' + it for it in items) + '\n' + indent + ']'


def strip_doc(body):
    if body and isinstance(body[0], ast.Expr) and isinstance(body[0].value, ast.Constant) \
            and isinstance(body[0].value.value, str):
        return body[1:]
    return body


def unparse_body(body):
    return '\n'.join(ast.unparse(s) for s in body)


def params_of(fdef):
    """(list of iarg terms, list of (param, default text))."""
    a = fdef.args
    out = []
    defaults = []
    for p in a.posonlyargs:
        out.append('AOther %s' % q('posonly ' + p.arg))
    for p in a.args:
        out.append('APos %s' % q(p.arg))
    pos = a.posonlyargs + a.args
    off = len(pos) - len(a.defaults)
    for i, d in enumerate(a.defaults):
        defaults.append((pos[off + i].arg, ast.unparse(d)))
    if a.vararg is not None:
        out.append('AStar %s' % q(a.vararg.arg))
    for p, d in zip(a.kwonlyargs, a.kw_defaults):
        out.append('AOther %s' % q('kwonly ' + p.arg))
        if d is not None:
            defaults.append((p.arg, ast.unparse(d)))
    if a.kwarg is not None:
        out.append('AKwargs %s' % q(a.kwarg.arg))
    return out, defaults


def call_args(call):
    out = []
    for x in call.args:
        if isinstance(x, ast.Name):
            out.append('APos %s' % q(x.id))
        elif isinstance(x, ast.Starred) and isinstance(x.value, ast.Name):
            out.append('AStar %s' % q(x.value.id))
        else:
            out.append('AOther %s' % q(ast.unparse(x)))
    for k in call.keywords:
        if k.arg is None and isinstance(k.value, ast.Name):
            out.append('AKwargs %s' % q(k.value.id))
        elif k.arg is None:
            out.append('AOther %s' % q('**' + ast.unparse(k.value)))
        else:
            out.append('AOther %s' % q(k.arg + '=' + ast.unparse(k.value)))
    return out


def method_return(stmt):
    """`return <Name>.<method>(<args>)` -> (method, receiver, args) or None."""
    if not (isinstance(stmt, ast.Return) and isinstance(stmt.value, ast.Call)):
        return None
    f = stmt.value.func
    if not (isinstance(f, ast.Attribute) and isinstance(f.value, ast.Name)):
        return None
    return f.attr, f.value.id, call_args(stmt.value)


def try_forward(stmt):
    if type(stmt) is not ast.Try:
        return None
    if stmt.orelse or stmt.finalbody or len(stmt.body) != 1 or len(stmt.handlers) != 1:
        return None
    fw = method_return(stmt.body[0])
    if fw is None:
        return None
    h = stmt.handlers[0]
    if not (isinstance(h.type, ast.Name) and h.type.id == 'AttributeError' and h.name is None
            and len(h.body) == 1):
        return None
    r = h.body[0]
    if not (isinstance(r, ast.Return) and isinstance(r.value, ast.Call)):
        return None
    c = r.value
    if ast.unparse(c.func) != 'ar.do' or c.keywords or len(c.args) != 2:
        return None
    k, x = c.args
    if not (isinstance(k, ast.Constant) and isinstance(k.value, str)):
        return None
    if not (isinstance(x, ast.Name) and x.id == fw[1]):
        return None
    return fw + (k.value,)


def classify(fdef):
    body = strip_doc(fdef.body)
    decos = [ast.unparse(d) for d in fdef.decorator_list]
    if decos == ['functools.singledispatch']:
        return 'IDispatch %s' % q(unparse_body(body))
    if decos:
        return 'IOther %s' % q('\n'.join('@' + d for d in decos) + '\n' + unparse_body(body))
    if isinstance(fdef, ast.AsyncFunctionDef):
        return 'IOther %s' % q('async\n' + unparse_body(body))
    if len(body) == 1:
        fw = method_return(body[0])
        if fw is not None:
            return 'IForward %s %s [%s]' % (q(fw[0]), q(fw[1]), '; '.join(fw[2]))
        tf = try_forward(body[0])
        if tf is not None:
            return 'ITryForward %s %s [%s] %s' % (q(tf[0]), q(tf[1]), '; '.join(tf[2]), q(tf[3]))
    return 'IOther %s' % q(unparse_body(body))


def registration(stmt):
    """`ar.register_function(<const>, <const>, <Name>)` -> triple or None."""
    if not (isinstance(stmt, ast.Expr) and isinstance(stmt.value, ast.Call)):
        return None
    c = stmt.value
    if ast.unparse(c.func) != 'ar.register_function' or c.keywords or len(c.args) != 3:
        return None
    a, b, f = c.args
    if not (isinstance(a, ast.Constant) and isinstance(a.value, str)
            and isinstance(b, ast.Constant) and isinstance(b.value, str)
            and isinstance(f, ast.Name)):
        return None
    return a.value, b.value, f.id


def generate(repo):
    path = os.path.join(repo, 'symmray', 'interface.py')
    try:
        with open(path) as fh:
            src = fh.read()
    except OSError as e:
        raise Unsupported('cannot read %s: %s' % (path, e))
    try:
        tree = ast.parse(src)
    except (SyntaxError, ValueError) as e:
        raise Unsupported('cannot parse %s: %s' % (path, e))

    entries, private, regs, other = [], [], [], []
    for i, stmt in enumerate(tree.body):
        if i == 0 and not strip_doc([stmt]):
            continue  # module docstring
        if isinstance(stmt, (ast.Import, ast.ImportFrom)) and \
                ast.unparse(stmt) in ('import functools', 'import autoray as ar'):
            continue
        if isinstance(stmt, (ast.FunctionDef, ast.AsyncFunctionDef)):
            if stmt.name.startswith('_'):
                private.append(q(stmt.name))
                continue
            params, defaults = params_of(stmt)
            entries.append(
                '{| iname := %s;\n       iparams := [%s];\n       idefaults := [%s];\n       ikind_of := %s |}' % (
                    q(stmt.name), '; '.join(params),
                    '; '.join('(%s, %s)' % (q(p), q(d)) for p, d in defaults),
                    classify(stmt)))
            continue
        reg = registration(stmt)
        if reg is not None:
            regs.append('(%s, %s, %s)' % tuple(q(x) for x in reg))
            continue
        other.append(q(ast.unparse(stmt)))

    out = ['(* GENERATED by tr/gen_interface.py from symmray/interface.py — do not edit. *)',
           HEADER,
           'Definition interface : list ientry := %s.' % coq_list(entries), '',
           'Definition private_functions : list string := %s.' % coq_list(private), '',
           '(* each top-level `ar.register_function(<const>, <const>, <Name>)` *)',
           'Definition registrations : list (string * string * string) := %s.' % coq_list(regs), '',
           '(* every other top-level statement that is not the module docstring, `import functools`,',
           '   `import autoray as ar`, a def, or a register_function call *)',
           'Definition other_toplevel : list string := %s.' % coq_list(other)]
    return '\n'.join(out) + '\n'


def write_if_changed(path, text):
    old = open(path).read() if os.path.exists(path) else None
    if old != text:
        with open(path, 'w') as fh:
            fh.write(text)
        return True
    return False


def generate_all(repo):
    return {'Interface.v': generate(repo)}


if __name__ == '__main__':
    repo = os.environ.get('SYMMRAY_REPO', '/repo')
    outdir = sys.argv[1] if len(sys.argv) > 1 else os.path.join(os.path.dirname(__file__), '..', 'coq', 'Gen')
    write_if_changed(os.path.join(outdir, 'Interface.v'), generate(repo))
