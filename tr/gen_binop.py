"""Regenerate coq/Gen/BinopGen.v from the CURRENT source of the block-level
arithmetic in $SYMMRAY_REPO/symmray/block_core.py (property C08):

  * `BlockBase._binary_blockwise_op(self, other, fn, missing=None, inplace=False)`
    is COMPILED, statement by statement, into a Gallina function over
    insertion-ordered association lists (Python dicts): which sectors are
    visited in which order, the `pop` of matched sectors from the copy of the
    right operand, item assignment / `del` on the result dict, the final
    `update` with the right-only blocks, the comparisons of `missing` against
    None / "outer" / "inner" (strings stay strings: `missing : option string`),
    and every `raise` (result `None`).  The per-block function `fn` stays an
    abstract parameter `fn : V -> V -> V`;
  * `BlockBase.apply_to_arrays(self, fn)` is compiled the same way (the loop
    behind scalar `*`, `/` and unary `-`);
  * the arithmetic dunder methods (`__add__ __iadd__ __sub__ __isub__ __mul__
    __imul__ __rmul__ __truediv__ __itruediv__ __neg__`) of `BlockBase`, and
    as resolved for `BlockVector` (own definition, else the inherited one), are
    READ into tables: per method the decision list on `isinstance(other, ..)`
    and, per case, what it does (`DBinop op missing inplace`: the call of
    `_binary_blockwise_op` with the operator / policy / in-place flag written in
    the source, defaults taken from the signature of `_binary_blockwise_op`;
    `DMapScalar` / `DMapUnary`: `apply_to_arrays` of `lambda x: x <op> other` /
    `operator.neg` on a copy or on self; `DNotImplemented`; `DRaise`;
    `DReflect`; `DGuard <condition text>`).  `dunder_policy` is the sub-table
    (method, (operator, missing, inplace)) of the block-array case;
  * which subclasses anywhere in the package override one of the translated
    names is emitted as `binop_overrides` (today: BlockVector's own dunders,
    which are tabled, and FermionicArray._binary_blockwise_op, which first
    multiplies pending signs in and then delegates; C03/C09 own that).

Fail-closed: any statement or expression form outside the fragment raises
`pygallina.Unsupported` (a broken translator tie of C08, never a silent skip).

The fragment (dict-manipulating straight-line code, `if/elif/else`, `for` over
the items of a dict, `try: v = d.pop(k) except KeyError: raise ...`):
  * objects: `self`, `other`; `xy = self if inplace else self.copy()` (also
    plain `self` / `self.copy()`) makes the result object; its block dict
    starts as self's blocks (`self.copy()` is taken to return an object whose
    dict has the same items in the same order: C14/C16 tie that) and the flag
    "the result IS self" is emitted as `binary_blockwise_op_result_is_self`.
    After that statement `self` may not be mentioned again (it may be aliased);
  * `d = xy.blocks` / `xy._blocks` ALIASES the result dict (`blocks` is checked
    to be a plain property returning `self._blocks`, overridden nowhere);
    `e = other.blocks.copy()` / `dict(other.blocks)` is a fresh dict; `other`
    may be used in no other way (so the right operand is never mutated and is
    read before the first mutation of the result, also when it is `self`);
  * `d[k] = e` = `dset`, `del d[k]` / `v = d.pop(k)` = `lookup` + `dpop`
    (a missing key raises: `None`), `v = d[k]` = `lookup`, `d.update(e)` =
    `py_update` (a left fold of `dset`), `k in d` = `dhas`, truth value of a
    dict = `negb (is_nil d)`, `fn(a, b)`;
  * `for k, v in d.items():` iterates LIVE: the body may then only assign
    `d[k]` for the loop's own key (no size change; a `del`/`pop`/`update` of d
    would be CPython's "dictionary changed size during iteration" and is
    refused); `for k, v in tuple(d.items()):` (or `list(..)`) iterates a
    snapshot and the body may do anything to d.  Both are
    `py_for <items at loop entry> body state` where the state is the tuple of
    dicts the body mutates; with duplicate-free keys the two readings of
    `v` coincide.  No `break` / `continue` / `return` in a body, nothing a
    body binds is visible after the loop;
  * mutable values are tracked by identity: binding a second name to a local
    dict (`a = b`) is refused.

Local names do not enter the text (binders are numbered in order of
introduction), so renaming locals regenerates the identical file.
"""
import ast
import glob
import os
import sys

sys.path.insert(0, os.path.dirname(os.path.abspath(__file__)))
from pygallina import Unsupported  # noqa: E402

BASE, VECTOR = 'BlockBase', 'BlockVector'
BINOP, APPLY = '_binary_blockwise_op', 'apply_to_arrays'
BINOP_PARAMS = ['self', 'other', 'fn', 'missing', 'inplace']
DUNDERS = ['__add__', '__iadd__', '__sub__', '__isub__', '__mul__', '__imul__', '__rmul__',
           '__truediv__', '__itruediv__', '__neg__']
UNARY = {'__neg__'}
OPNAME = {ast.Add: 'add', ast.Sub: 'sub', ast.Mult: 'mul', ast.Div: 'truediv', ast.Pow: 'pow',
          ast.FloorDiv: 'floordiv', ast.Mod: 'mod', ast.MatMult: 'matmul'}
EXCEPTIONS = {'ValueError', 'KeyError', 'TypeError', 'NotImplementedError', 'RuntimeError', 'IndexError',
              'AttributeError', 'AssertionError', 'Exception'}

PREAMBLE = '''(* GENERATED by tr/gen_binop.py from symmray/block_core.py (BlockBase._binary_blockwise_op, BlockBase.apply_to_arrays, the arithmetic dunder methods of BlockBase / BlockVector) - do not edit. *)
From SV Require Import Base.Prelude.
From Coq Require Import String.

(* ---- fixed text: the Python constructs the translation uses ---- *)
(* `for a in l: st = body(a, st)`; None = the body raised *)
Fixpoint py_for {A S : Type} (l : list A) (body : A -> S -> option S) (st : S) : option S :=
  match l with
  | [] => Some st
  | a :: l' => match body a st with Some st' => py_for l' body st' | None => None end
  end.

(* d.update(e): every item of e is assigned into d, in e's order *)
Definition py_update {K V : Type} (ke : K -> K -> bool) (d e : list (K * V)) : list (K * V) :=
  fold_left (fun acc p => dset ke (fst p) (snd p) acc) e d.

(* `m == "s"` for m : None | str *)
Definition opt_str_eqb (m : option string) (s : string) : bool :=
  match m with Some t => String.eqb t s | None => false end.

(* what one case of an arithmetic dunder method does *)
Inductive dunder_action : Type :=
| DBinop (op : string) (missing : option string) (inplace : bool)
    (* return self._binary_blockwise_op(other, fn=operator.<op>, missing=.., inplace=..) *)
| DMapScalar (op : string) (scalar_on_right : bool) (inplace : bool)
    (* [new = self.copy();] new.apply_to_arrays(lambda x: x <op> other)  (scalar_on_right = false: other <op> x) *)
| DMapUnary (op : string) (inplace : bool)
    (* [new = self.copy();] new.apply_to_arrays(operator.<op>) *)
| DNotImplemented                           (* return NotImplemented *)
| DRaise (exc : string)                     (* raise <exc>(..) *)
| DReflect (op : string)                    (* return self <op> other *)
| DGuard (cond : string) (yes no : dunder_action).   (* if <cond>: yes, else: no *)

Definition op_name := string.
Definition missing_policy := option string.
Definition inplace_flag := bool.
'''


# ====================================================================== class information
class ClassInfo:
    def __init__(self, cls):
        self.cls = cls
        self.defs = {}
        for n in cls.body:
            if isinstance(n, (ast.FunctionDef, ast.AsyncFunctionDef)):
                if n.name in self.defs:
                    raise Unsupported('%s.%s is defined twice' % (cls.name, n.name))
                self.defs[n.name] = n
            elif isinstance(n, (ast.Assign, ast.AnnAssign, ast.AugAssign)):
                targets = n.targets if isinstance(n, ast.Assign) else [n.target]
                for t in targets:
                    for x in ast.walk(t):
                        if isinstance(x, ast.Name):
                            self.defs.setdefault(x.id, n)
            elif isinstance(n, (ast.If, ast.For, ast.While, ast.With, ast.Try, ast.ClassDef)):
                raise Unsupported('%s inside the body of class %s' % (type(n).__name__, cls.name))

    def method(self, name):
        d = self.defs.get(name)
        if not isinstance(d, ast.FunctionDef):
            raise Unsupported('%s.%s is not a method defined in the class body' % (self.cls.name, name))
        if d.decorator_list:
            raise Unsupported('%s.%s is decorated' % (self.cls.name, name))
        return d


def strip_doc(stmts):
    return [s for s in stmts
            if not (isinstance(s, ast.Expr) and isinstance(s.value, ast.Constant) and isinstance(s.value.value, str))
            and not isinstance(s, ast.Pass)]


def package_classes(repo):
    out = {}
    for f in sorted(glob.glob(os.path.join(repo, 'symmray', '**', '*.py'), recursive=True)):
        try:
            tree = ast.parse(open(f).read())
        except SyntaxError as e:
            raise Unsupported('cannot parse %s: %s' % (os.path.relpath(f, repo), e))
        for n in ast.walk(tree):
            if isinstance(n, ast.ClassDef):
                out.setdefault(n.name, []).append((os.path.relpath(f, repo), n))
    return out


def overrides(repo, base, names):
    """(class, name) for every subclass of `base` anywhere in the package that defines one of `names`"""
    classes = package_classes(repo)
    if len(classes.get(base, [])) != 1:
        raise Unsupported('class %s is defined %d times in the package' % (base, len(classes.get(base, []))))

    def base_names(c):
        out = []
        for b in c.bases:
            if isinstance(b, ast.Name):
                out.append(b.id)
            elif isinstance(b, ast.Attribute):
                out.append(b.attr)
            else:
                raise Unsupported('base class expression %s of %s' % (ast.unparse(b)[:40], c.name))
        return out
    sub = {base}
    changed = True
    while changed:
        changed = False
        for cname, lst in classes.items():
            if cname not in sub and any(set(base_names(c)) & sub for _, c in lst):
                sub.add(cname)
                changed = True
    hits = []
    for cname in sorted(sub - {base}):
        for _, c in classes[cname]:
            own = set()
            for n in ast.walk(c):
                if isinstance(n, (ast.FunctionDef, ast.AsyncFunctionDef)) and n is not c:
                    own.add(n.name)
            for n in c.body:
                if isinstance(n, ast.Assign):
                    for t in n.targets:
                        own |= {x.id for x in ast.walk(t) if isinstance(x, ast.Name)}
            hits += [(cname, nm) for nm in sorted(own & set(names))]
    # names may also be planted from outside the class body: `Cls.name = ...` / setattr(Cls, 'name', ..)
    for f in sorted(glob.glob(os.path.join(repo, 'symmray', '**', '*.py'), recursive=True)):
        tree = ast.parse(open(f).read())
        for n in ast.walk(tree):
            if isinstance(n, (ast.Assign, ast.AugAssign, ast.AnnAssign, ast.Delete)):
                targets = n.targets if isinstance(n, (ast.Assign, ast.Delete)) else [n.target]
                for t in targets:
                    if isinstance(t, ast.Attribute) and t.attr in names and t.attr != '_blocks' and not (
                            isinstance(t.value, ast.Name) and t.value.id == 'self'):
                        raise Unsupported('%s: assignment to the attribute %s' % (os.path.relpath(f, repo), ast.unparse(t)[:60]))
            if isinstance(n, ast.Call) and isinstance(n.func, ast.Name) and n.func.id in ('setattr', 'delattr') \
                    and len(n.args) >= 2:
                a = n.args[1]
                if not isinstance(a, ast.Constant) or a.value in names:
                    raise Unsupported('%s: %s' % (os.path.relpath(f, repo), ast.unparse(n)[:60]))
    return hits


# ====================================================================== Gallina text helpers
def gstr(s):
    if '"' in s or any(ord(c) > 126 or ord(c) < 32 for c in s):
        raise Unsupported('string literal %r' % s)
    return '"%s"%%string' % s


def gopt_str(v):
    if v is None:
        return 'None'
    if isinstance(v, str):
        return '(Some %s)' % gstr(v)
    raise Unsupported('`missing` value %r is neither None nor a string' % (v,))


def gbool(b):
    if b is True:
        return 'true'
    if b is False:
        return 'false'
    raise Unsupported('in-place flag %r is not a bool literal' % (b,))


# ====================================================================== the statement compiler
class State:
    """functional environment: names -> bindings, dict identities -> current Gallina variable"""

    def __init__(self, names=None, dicts=None):
        self.names = dict(names or {})      # python name -> ('val', gallina, type) | ('dict', key) | ('obj', key) | ('other',)
        self.dicts = dict(dicts or {})      # key -> (gallina name, mutable)

    def copy(self):
        return State(self.names, self.dicts)


class Compiler:
    def __init__(self, mode, notes, blocks_attrs):
        self.mode = mode            # 'binop' | 'apply'
        self.notes = notes
        self.blocks_attrs = blocks_attrs    # attribute names through which an object's dict is reached
        self.counter = 0
        self.alias_flag = None      # text: the result object IS self
        self.result_key = None
        self.loops = []             # stack of dicts describing the enclosing loops
        self.ndicts = 0

    def fresh(self):
        self.counter += 1
        return 'v%d' % self.counter

    # ------------------------------------------------------------ dict references
    def dict_key(self, n, st):
        """the identity of the dict an expression denotes, or None"""
        if isinstance(n, ast.Name):
            b = st.names.get(n.id)
            if b and b[0] == 'dict':
                return b[1]
            return None
        if isinstance(n, ast.Attribute) and isinstance(n.value, ast.Name) and n.attr in self.blocks_attrs:
            b = st.names.get(n.value.id)
            if b and b[0] == 'obj':
                return b[1]
        return None

    def need_dict(self, n, st, what):
        k = self.dict_key(n, st)
        if k is None:
            raise Unsupported('%s: %s is not a known dict' % (what, ast.unparse(n)[:40]))
        return k

    def check_mutation(self, key, st, keyexpr=None, item_assign=False):
        g, mutable = st.dicts[key]
        if not mutable:
            raise Unsupported('mutation of a dict that is not the result or a local copy')
        for lp in self.loops:
            if lp['live'] == key:
                if not item_assign:
                    raise Unsupported('the dict iterated over changes size inside the loop (RuntimeError in CPython)')
                if not (isinstance(keyexpr, ast.Name) and keyexpr.id == lp['keyvar']):
                    raise Unsupported('item assignment with a key other than the loop key into the dict iterated over')
            if lp['snapshot_of'] == key:
                pass        # a snapshot was taken: anything goes

    # ------------------------------------------------------------ expressions
    def scalar(self, n, st):
        """-> (text, type) of a value expression"""
        if isinstance(n, ast.Name):
            b = st.names.get(n.id)
            if b is None:
                raise Unsupported('name %s is not bound here' % n.id)
            if b[0] == 'val':
                return b[1], b[2]
            raise Unsupported('%s used as a value' % n.id)
        if isinstance(n, ast.Call) and isinstance(n.func, ast.Name) and not n.keywords:
            b = st.names.get(n.func.id)
            if b and b[0] == 'val' and b[2] in ('fnVV', 'fnV'):
                want = 2 if b[2] == 'fnVV' else 1
                if len(n.args) != want or any(isinstance(a, ast.Starred) for a in n.args):
                    raise Unsupported('call %s' % ast.unparse(n)[:60])
                args = []
                for a in n.args:
                    x, t = self.scalar(a, st)
                    if t != 'V':
                        raise Unsupported('argument %s of the block function is not a block' % ast.unparse(a)[:40])
                    args.append(x)
                return '(%s %s)' % (b[1], ' '.join(args)), 'V'
        raise Unsupported('expression %s' % ast.unparse(n)[:60])

    def cond(self, n, st):
        """-> text of type bool"""
        if isinstance(n, ast.UnaryOp) and isinstance(n.op, ast.Not):
            return '(negb %s)' % self.cond(n.operand, st)
        if isinstance(n, ast.BoolOp):
            op = 'andb' if isinstance(n.op, ast.And) else 'orb'
            parts = [self.cond(v, st) for v in n.values]
            out = parts[-1]
            for p in reversed(parts[:-1]):
                out = '(%s %s %s)' % (op, p, out)
            return out
        if isinstance(n, (ast.Name, ast.Attribute)):
            k = self.dict_key(n, st)
            if k is not None:
                return '(negb (is_nil %s))' % st.dicts[k][0]
            if isinstance(n, ast.Name):
                b = st.names.get(n.id)
                if b and b[0] == 'val' and b[2] == 'bool':
                    return b[1]
                if b and b[0] == 'val' and b[2] == 'missing':
                    # truth value of None / str: None and "" are false
                    return '(match %s with Some s => negb (String.eqb s ""%%string) | None => false end)' % b[1]
            raise Unsupported('truth value of %s' % ast.unparse(n)[:40])
        if isinstance(n, ast.Compare) and len(n.ops) == 1:
            op, a, b = n.ops[0], n.left, n.comparators[0]
            if isinstance(op, (ast.In, ast.NotIn)):
                key, t = self.scalar(a, st)
                if t != 'K':
                    raise Unsupported('`in` with a left operand that is not a sector')
                d = self.need_dict(b, st, '`in`')
                r = '(dhas ke %s %s)' % (key, st.dicts[d][0])
                return r if isinstance(op, ast.In) else '(negb %s)' % r
            if isinstance(op, (ast.Is, ast.IsNot, ast.Eq, ast.NotEq)):
                def is_missing(x):
                    if isinstance(x, ast.Name):
                        bb = st.names.get(x.id)
                        return bool(bb and bb[0] == 'val' and bb[2] == 'missing')
                    return False
                if is_missing(b) and not is_missing(a):
                    a, b = b, a
                if is_missing(a) and isinstance(b, ast.Constant):
                    m = st.names[a.id][1]
                    if b.value is None:
                        # `== None` and `is None` agree on None | str
                        r = '(is_none %s)' % m
                    elif isinstance(b.value, str):
                        if isinstance(op, (ast.Is, ast.IsNot)):
                            raise Unsupported('identity comparison of `missing` with a string literal')
                        r = '(opt_str_eqb %s %s)' % (m, gstr(b.value))
                    else:
                        raise Unsupported('comparison of `missing` with %r' % (b.value,))
                    return r if isinstance(op, (ast.Is, ast.Eq)) else '(negb %s)' % r
        raise Unsupported('condition %s' % ast.unparse(n)[:60])

    # ------------------------------------------------------------ statements
    def is_self(self, n, st):
        return isinstance(n, ast.Name) and n.id == 'self' and st.names.get('self', ('',))[0] == 'self'

    def object_expr(self, n, st):
        """`self`, `self.copy()`, `A if c else B` -> text of the flag 'this IS self'"""
        if self.is_self(n, st):
            return 'true'
        if isinstance(n, ast.Call) and isinstance(n.func, ast.Attribute) and n.func.attr == 'copy' \
                and self.is_self(n.func.value, st) and not n.args and not n.keywords:
            return 'false'
        if isinstance(n, ast.IfExp):
            a, b = self.object_expr(n.body, st), self.object_expr(n.orelse, st)
            if a is None or b is None:
                return None
            return '(if %s then %s else %s)' % (self.cond(n.test, st), a, b)
        return None

    def other_copy(self, n, st):
        """`other.blocks.copy()` / `dict(other.blocks)`"""
        def other_blocks(x):
            return (isinstance(x, ast.Attribute) and x.attr in self.blocks_attrs and isinstance(x.value, ast.Name)
                    and st.names.get(x.value.id, ('',))[0] == 'other')
        if isinstance(n, ast.Call) and not n.keywords:
            if isinstance(n.func, ast.Attribute) and n.func.attr == 'copy' and not n.args and other_blocks(n.func.value):
                return True
            if isinstance(n.func, ast.Name) and n.func.id == 'dict' and 'dict' not in st.names and len(n.args) == 1 \
                    and other_blocks(n.args[0]):
                return True
        return False

    def mentions(self, n, st, kinds):
        for x in ast.walk(n):
            if isinstance(x, ast.Name) and st.names.get(x.id, ('',))[0] in kinds:
                return True
        return False

    def rebind_check(self, name, st):
        b = st.names.get(name)
        if b is not None and b[0] != 'val':
            raise Unsupported('the name %s (an object / dict / parameter) is rebound' % name)
        if b is not None and b[2] in ('fnVV', 'fnV', 'missing', 'bool'):
            raise Unsupported('the parameter %s is rebound' % name)
        for lp in self.loops:
            if name in lp['outer']:
                raise Unsupported('the loop body assigns %s, which exists outside the loop' % name)
            if name in (lp['keyvar'], lp['valvar']):
                raise Unsupported('the loop variable %s is rebound in the body' % name)

    def pop_like(self, dexpr, kexpr, st, bind_name, rest, ctx, delete=True):
        """v = d.pop(k) / del d[k] / v = d[k]: lookup, None (KeyError) when missing"""
        d = self.need_dict(dexpr, st, 'subscript / pop')
        key, t = self.scalar(kexpr, st)
        if t != 'K':
            raise Unsupported('dict key %s is not a sector' % ast.unparse(kexpr)[:40])
        st2 = st.copy()
        g = st.dicts[d][0]
        if bind_name is not None:
            self.rebind_check(bind_name, st)
            v = self.fresh()
            st2.names[bind_name] = ('val', v, 'V')
            pat = 'Some %s' % v
        else:
            pat = 'Some _'
        if delete:
            self.check_mutation(d, st)
            g2 = self.fresh()
            st2.dicts[d] = (g2, True)
            body = '(let %s := dpop ke %s %s in %s)' % (g2, key, g, self.block(rest, st2, ctx))
        else:
            body = self.block(rest, st2, ctx)
        return '(match lookup ke %s %s with %s => %s | None => None end)' % (key, g, pat, body)

    def block(self, stmts, st, ctx):
        """statement list -> Gallina text of type option <ctx result>"""
        stmts = list(stmts)
        while stmts and (isinstance(stmts[0], ast.Pass) or (
                isinstance(stmts[0], ast.Expr) and isinstance(stmts[0].value, ast.Constant)
                and isinstance(stmts[0].value.value, str))):
            stmts.pop(0)
        if not stmts:
            return ctx['tail'](st)
        s, rest = stmts[0], stmts[1:]

        if isinstance(s, ast.Return):
            if ctx['ret'] is None:
                raise Unsupported('return inside a loop')
            return ctx['ret'](s.value, st)

        if isinstance(s, ast.Raise):
            if s.cause is not None:
                raise Unsupported('raise ... from')
            e = s.exc
            if isinstance(e, ast.Call):
                e = e.func
            if not (isinstance(e, ast.Name) and e.id in EXCEPTIONS and e.id not in st.names):
                raise Unsupported('raise of %s' % ast.unparse(s)[:60])
            return 'None'

        if isinstance(s, ast.Try):
            # try: v = d.pop(k) [/ v = d[k]]  except KeyError: raise ...
            body = strip_doc(s.body)
            if s.orelse or s.finalbody or len(s.handlers) != 1 or len(body) != 1:
                raise Unsupported('try statement shape')
            h = s.handlers[0]
            hb = strip_doc(h.body)
            if not (isinstance(h.type, ast.Name) and h.type.id == 'KeyError' and len(hb) == 1 and isinstance(hb[0], ast.Raise)):
                raise Unsupported('only `except KeyError: raise ...` is supported')
            self.block(hb, st, ctx)       # validates the raise
            a = body[0]
            ok = (isinstance(a, ast.Assign) and len(a.targets) == 1 and isinstance(a.targets[0], ast.Name)
                  and (self.is_pop(a.value, st) or self.is_getitem(a.value, st)))
            if not ok:
                raise Unsupported('try body %s' % ast.unparse(a)[:60])
            return self.block([a] + rest, st, ctx)

        if isinstance(s, ast.Assign):
            if len(s.targets) != 1:
                raise Unsupported('multi-target assignment')
            tgt, val = s.targets[0], s.value
            if isinstance(tgt, ast.Subscript):
                d = self.need_dict(tgt.value, st, 'item assignment')
                key, t = self.scalar(tgt.slice, st)
                if t != 'K':
                    raise Unsupported('dict key %s is not a sector' % ast.unparse(tgt.slice)[:40])
                self.check_mutation(d, st, tgt.slice, item_assign=True)
                x, tx = self.scalar(val, st)
                if tx != 'V':
                    raise Unsupported('stored value %s is not a block' % ast.unparse(val)[:40])
                g2 = self.fresh()
                st2 = st.copy()
                st2.dicts[d] = (g2, True)
                return '(let %s := dset ke %s %s %s in %s)' % (g2, key, x, st.dicts[d][0], self.block(rest, st2, ctx))
            if not isinstance(tgt, ast.Name):
                raise Unsupported('assignment target %s' % ast.unparse(tgt)[:40])
            name = tgt.id
            # the result object
            flag = self.object_expr(val, st) if self.mode == 'binop' and 'self' in st.names else None
            if flag is not None:
                if self.loops or self.result_key is not None:
                    raise Unsupported('a second result object')
                if name in st.names:
                    raise Unsupported('the name %s is rebound' % name)
                st2 = st.copy()
                g, _ = st.dicts['self']
                st2.dicts['result'] = (g, True)
                del st2.dicts['self']
                del st2.names['self']           # self may be aliased from here on: it may not be mentioned again
                st2.names[name] = ('obj', 'result')
                self.alias_flag, self.result_key = flag, 'result'
                return self.block(rest, st2, ctx)
            if self.other_copy(val, st):
                if self.loops:
                    raise Unsupported('copy of the right operand inside a loop')
                if name in st.names:
                    raise Unsupported('the name %s is rebound' % name)
                self.ndicts += 1
                key = 'copy%d' % self.ndicts
                st2 = st.copy()
                st2.dicts[key] = (st.dicts['other'][0], True)
                st2.names[name] = ('dict', key)
                return self.block(rest, st2, ctx)
            k = self.dict_key(val, st)
            if k is not None:
                if not isinstance(val, ast.Attribute):
                    raise Unsupported('a second name for the dict %s' % ast.unparse(val)[:40])
                if name in st.names or self.loops:
                    raise Unsupported('the name %s is rebound' % name)
                if any(b == ('dict', k) for b in st.names.values()):
                    raise Unsupported('a second name for the dict %s' % ast.unparse(val)[:40])
                st2 = st.copy()
                st2.names[name] = ('dict', k)
                return self.block(rest, st2, ctx)
            if self.is_pop(val, st):
                return self.pop_like(val.func.value, val.args[0], st, name, rest, ctx, delete=True)
            if self.is_getitem(val, st):
                return self.pop_like(val.value, val.slice, st, name, rest, ctx, delete=False)
            x, t = self.scalar(val, st)
            self.rebind_check(name, st)
            v = self.fresh()
            st2 = st.copy()
            st2.names[name] = ('val', v, t)
            return '(let %s := %s in %s)' % (v, x, self.block(rest, st2, ctx))

        if isinstance(s, ast.Delete):
            if len(s.targets) != 1 or not isinstance(s.targets[0], ast.Subscript):
                raise Unsupported('del %s' % ast.unparse(s)[:40])
            t = s.targets[0]
            return self.pop_like(t.value, t.slice, st, None, rest, ctx, delete=True)

        if isinstance(s, ast.Expr) and isinstance(s.value, ast.Call):
            c = s.value
            if self.is_pop(c, st):
                return self.pop_like(c.func.value, c.args[0], st, None, rest, ctx, delete=True)
            if isinstance(c.func, ast.Attribute) and c.func.attr == 'update' and len(c.args) == 1 and not c.keywords:
                d = self.dict_key(c.func.value, st)
                e = self.dict_key(c.args[0], st)
                if d is None or e is None:
                    raise Unsupported('update: %s' % ast.unparse(c)[:60])
                if d == e:
                    raise Unsupported('d.update(d)')
                self.check_mutation(d, st)
                g2 = self.fresh()
                st2 = st.copy()
                st2.dicts[d] = (g2, True)
                return '(let %s := py_update ke %s %s in %s)' % (g2, st.dicts[d][0], st.dicts[e][0], self.block(rest, st2, ctx))
            raise Unsupported('statement %s' % ast.unparse(s)[:60])

        if isinstance(s, ast.If):
            c = self.cond(s.test, st)
            a = self.block(list(s.body) + rest, st, ctx)
            b = self.block(list(s.orelse) + rest, st, ctx)
            return '(if %s then %s else %s)' % (c, a, b)

        if isinstance(s, ast.For):
            return self.for_loop(s, rest, st, ctx)

        raise Unsupported('statement %s' % type(s).__name__)

    def is_pop(self, n, st):
        if isinstance(n, ast.Call) and isinstance(n.func, ast.Attribute) and n.func.attr == 'pop' \
                and self.dict_key(n.func.value, st) is not None:
            if len(n.args) != 1 or n.keywords or isinstance(n.args[0], ast.Starred):
                raise Unsupported('pop with a default: %s' % ast.unparse(n)[:60])
            return True
        return False

    def is_getitem(self, n, st):
        return isinstance(n, ast.Subscript) and self.dict_key(n.value, st) is not None

    def mutated_keys(self, stmts, st):
        """dict identities a statement list may mutate (syntactic)"""
        out = []

        def add(expr):
            k = self.dict_key(expr, st)
            if k is not None and k not in out:
                out.append(k)
        for s in stmts:
            for x in ast.walk(s):
                if isinstance(x, ast.Assign):
                    for t in x.targets:
                        if isinstance(t, ast.Subscript):
                            add(t.value)
                elif isinstance(x, ast.Delete):
                    for t in x.targets:
                        if isinstance(t, ast.Subscript):
                            add(t.value)
                elif isinstance(x, ast.Call) and isinstance(x.func, ast.Attribute) and x.func.attr in (
                        'pop', 'update', 'clear', 'popitem', 'setdefault', '__setitem__', '__delitem__'):
                    add(x.func.value)
                elif isinstance(x, (ast.AugAssign, ast.AnnAssign)):
                    raise Unsupported('%s in a loop body' % type(x).__name__)
        return out

    def for_loop(self, s, rest, st, ctx):
        if s.orelse:
            raise Unsupported('for ... else')
        for x in ast.walk(s):
            if isinstance(x, (ast.Break, ast.Continue, ast.Return, ast.While)) or (isinstance(x, ast.For) and x is not s):
                raise Unsupported('%s inside a loop' % type(x).__name__)
        # the iterable
        it = s.iter
        snapshot = False
        if isinstance(it, ast.Call) and isinstance(it.func, ast.Name) and it.func.id in ('tuple', 'list') \
                and it.func.id not in st.names and len(it.args) == 1 and not it.keywords:
            snapshot, it = True, it.args[0]
        if not (isinstance(it, ast.Call) and isinstance(it.func, ast.Attribute) and it.func.attr == 'items'
                and not it.args and not it.keywords):
            raise Unsupported('for over %s' % ast.unparse(s.iter)[:60])
        d = self.need_dict(it.func.value, st, 'for ... in d.items()')
        tgt = s.target
        if not (isinstance(tgt, ast.Tuple) and len(tgt.elts) == 2 and all(isinstance(e, ast.Name) for e in tgt.elts)
                and tgt.elts[0].id != tgt.elts[1].id):
            raise Unsupported('loop target %s' % ast.unparse(tgt)[:40])
        kname, vname = tgt.elts[0].id, tgt.elts[1].id
        for nm in (kname, vname):
            if nm in st.names:
                raise Unsupported('the loop (re)binds %s, which exists outside the loop' % nm)
        keys = self.mutated_keys(s.body, st)
        if not keys:
            raise Unsupported('a loop that changes no dict')
        keys.sort(key=lambda k: list(st.dicts).index(k))
        kv, vv = self.fresh(), self.fresh()
        inner = st.copy()
        inner.names[kname] = ('val', kv, 'K')
        inner.names[vname] = ('val', vv, 'V')
        svars = []
        for k in keys:
            g = self.fresh()
            svars.append(g)
            inner.dicts[k] = (g, st.dicts[k][1])
        self.loops.append({'live': None if snapshot else d, 'snapshot_of': d if snapshot else None,
                           'keyvar': kname, 'valvar': vname, 'outer': set(st.names)})

        def tup(vs):
            return vs[0] if len(vs) == 1 else '(%s)' % ', '.join(vs)

        def body_tail(e):
            return '(Some %s)' % tup([e.dicts[k][0] for k in keys])
        body = self.block(list(s.body), inner, {'tail': body_tail, 'ret': None})
        self.loops.pop()
        spat = svars[0] if len(svars) == 1 else "'%s" % tup(svars)
        after = st.copy()
        outs = []
        for k in keys:
            g = self.fresh()
            outs.append(g)
            after.dicts[k] = (g, st.dicts[k][1])
        return ("(match py_for %s (fun '(%s, %s) %s => %s) %s with Some %s => %s | None => None end)"
                % (st.dicts[d][0], kv, vv, spat, body, tup([st.dicts[k][0] for k in keys]), tup(outs),
                   self.block(rest, after, ctx)))


def check_signature(fdef, names, what):
    a = fdef.args
    if [x.arg for x in a.args] != names or a.vararg or a.kwarg or a.kwonlyargs or a.posonlyargs:
        raise Unsupported('signature of %s' % what)
    banned = (ast.Global, ast.Nonlocal, ast.Lambda, ast.FunctionDef, ast.AsyncFunctionDef, ast.ClassDef, ast.With,
              ast.While, ast.Yield, ast.YieldFrom, ast.Await, ast.NamedExpr, ast.AugAssign, ast.AnnAssign,
              ast.Assert, ast.Import, ast.ImportFrom, ast.ListComp, ast.DictComp, ast.SetComp, ast.GeneratorExp)
    for x in ast.walk(fdef):
        if isinstance(x, banned) and x is not fdef:
            raise Unsupported('%s inside %s' % (type(x).__name__, what))


def compile_binop(fdef, notes, blocks_attrs):
    check_signature(fdef, BINOP_PARAMS, BINOP)
    defaults = fdef.args.defaults
    if len(defaults) != 2 or not all(isinstance(d, ast.Constant) for d in defaults):
        raise Unsupported('defaults of %s' % BINOP)
    d_missing, d_inplace = defaults[0].value, defaults[1].value
    gopt_str(d_missing), gbool(d_inplace)
    C = Compiler('binop', notes, blocks_attrs)
    st = State({'self': ('self',), 'other': ('other',), 'fn': ('val', 'fn', 'fnVV'),
                'missing': ('val', 'missing', 'missing'), 'inplace': ('val', 'inplace', 'bool')},
               {'self': ('self_blocks', False), 'other': ('other_blocks', False)})

    def ret(v, e):
        if not (isinstance(v, ast.Name) and e.names.get(v.id) == ('obj', 'result')):
            raise Unsupported('%s returns something else than the result object' % BINOP)
        return '(Some %s)' % e.dicts['result'][0]

    def tail(e):
        raise Unsupported('%s may fall off its end (returns None)' % BINOP)
    body = C.block(list(fdef.body), st, {'tail': tail, 'ret': ret})
    if C.alias_flag is None:
        raise Unsupported('%s never creates its result object' % BINOP)
    return body, C.alias_flag, d_missing, d_inplace


def compile_apply(fdef, notes, blocks_attrs):
    check_signature(fdef, ['self', 'fn'], APPLY)
    if fdef.args.defaults:
        raise Unsupported('defaults of %s' % APPLY)
    C = Compiler('apply', notes, blocks_attrs)
    st = State({'self': ('obj', 'self'), 'fn': ('val', 'fn', 'fnV')}, {'self': ('self_blocks', True)})

    def tail(e):
        return '(Some %s)' % e.dicts['self'][0]
    return C.block(list(fdef.body), st, {'tail': tail, 'ret': None})


# ====================================================================== the dunder tables
class Dunders:
    def __init__(self, binop_defaults):
        self.d_missing, self.d_inplace = binop_defaults

    def const(self, n, what):
        if not isinstance(n, ast.Constant):
            raise Unsupported('%s is not a literal: %s' % (what, ast.unparse(n)[:40]))
        return n.value

    def operator_attr(self, n):
        if isinstance(n, ast.Attribute) and isinstance(n.value, ast.Name) and n.value.id == 'operator':
            return n.attr
        raise Unsupported('block function %s is not operator.<name>' % ast.unparse(n)[:40])

    def binop_call(self, c):
        """self._binary_blockwise_op(other, fn=operator.X, missing=.., inplace=..) -> text of a DBinop"""
        vals = {}
        if any(isinstance(a, ast.Starred) for a in c.args) or len(c.args) > 4:
            raise Unsupported('arguments of %s' % ast.unparse(c)[:60])
        for nm, a in zip(BINOP_PARAMS[1:], c.args):
            vals[nm] = a
        for kw in c.keywords:
            if kw.arg is None or kw.arg not in BINOP_PARAMS[1:] or kw.arg in vals:
                raise Unsupported('keyword of %s' % ast.unparse(c)[:60])
            vals[kw.arg] = kw.value
        if not (isinstance(vals.get('other'), ast.Name) and vals['other'].id == 'other') or 'fn' not in vals:
            raise Unsupported('operands of %s' % ast.unparse(c)[:60])
        op = self.operator_attr(vals['fn'])
        missing = self.const(vals['missing'], 'missing') if 'missing' in vals else self.d_missing
        inplace = self.const(vals['inplace'], 'inplace') if 'inplace' in vals else self.d_inplace
        return ('binop', op, missing, inplace)

    def map_fn(self, f, inplace):
        if isinstance(f, ast.Lambda):
            a = f.args
            if len(a.args) != 1 or a.vararg or a.kwarg or a.kwonlyargs or a.posonlyargs or a.defaults:
                raise Unsupported('lambda signature %s' % ast.unparse(f)[:40])
            x = a.args[0].arg
            b = f.body
            if x != 'other' and isinstance(b, ast.BinOp) and type(b.op) in OPNAME \
                    and isinstance(b.left, ast.Name) and isinstance(b.right, ast.Name):
                if (b.left.id, b.right.id) == (x, 'other'):
                    return ('mapscalar', OPNAME[type(b.op)], True, inplace)
                if (b.left.id, b.right.id) == ('other', x):
                    return ('mapscalar', OPNAME[type(b.op)], False, inplace)
            raise Unsupported('lambda %s' % ast.unparse(f)[:40])
        return ('mapunary', self.operator_attr(f), inplace)

    def is_apply_call(self, s, obj):
        return (isinstance(s, ast.Expr) and isinstance(s.value, ast.Call) and isinstance(s.value.func, ast.Attribute)
                and s.value.func.attr == APPLY and isinstance(s.value.func.value, ast.Name)
                and s.value.func.value.id == obj and len(s.value.args) == 1 and not s.value.keywords)

    def action(self, stmts, unary):
        """a statement list that always returns / raises -> action tuple"""
        stmts = strip_doc(stmts)
        if not stmts:
            raise Unsupported('a dunder case falls off its end')
        s = stmts[0]
        if isinstance(s, ast.If):
            if self.isinstance_test(s.test) is not None:
                raise Unsupported('nested isinstance test')
            if s.orelse and stmts[1:]:
                raise Unsupported('if/else followed by more statements in a dunder method')
            return ('guard', cond_text(s.test), self.action(s.body, unary), self.action(list(s.orelse) + stmts[1:], unary))
        if isinstance(s, ast.Raise) and len(stmts) == 1:
            e = s.exc.func if isinstance(s.exc, ast.Call) else s.exc
            if not (isinstance(e, ast.Name) and e.id in EXCEPTIONS) or s.cause is not None:
                raise Unsupported('raise %s' % ast.unparse(s)[:40])
            return ('raise', e.id)
        if isinstance(s, ast.Return) and len(stmts) == 1 and s.value is not None:
            v = s.value
            if isinstance(v, ast.Name) and v.id == 'NotImplemented':
                return ('notimplemented',)
            if isinstance(v, ast.Call) and isinstance(v.func, ast.Attribute) and v.func.attr == BINOP \
                    and isinstance(v.func.value, ast.Name) and v.func.value.id == 'self' and not unary:
                return self.binop_call(v)
            if isinstance(v, ast.BinOp) and type(v.op) in OPNAME and isinstance(v.left, ast.Name) and v.left.id == 'self' \
                    and isinstance(v.right, ast.Name) and v.right.id == 'other' and not unary:
                return ('reflect', OPNAME[type(v.op)])
            raise Unsupported('return %s' % ast.unparse(v)[:60])
        # new = self.copy(); new.apply_to_arrays(F); return new
        if len(stmts) == 3 and isinstance(s, ast.Assign) and len(s.targets) == 1 and isinstance(s.targets[0], ast.Name) \
                and isinstance(s.value, ast.Call) and isinstance(s.value.func, ast.Attribute) and s.value.func.attr == 'copy' \
                and isinstance(s.value.func.value, ast.Name) and s.value.func.value.id == 'self' \
                and not s.value.args and not s.value.keywords:
            new = s.targets[0].id
            if new not in ('self', 'other') and self.is_apply_call(stmts[1], new) and isinstance(stmts[2], ast.Return) \
                    and isinstance(stmts[2].value, ast.Name) and stmts[2].value.id == new:
                return self.map_fn(stmts[1].value.args[0], False)
        # self.apply_to_arrays(F); return self
        if len(stmts) == 2 and self.is_apply_call(s, 'self') and isinstance(stmts[1], ast.Return) \
                and isinstance(stmts[1].value, ast.Name) and stmts[1].value.id == 'self':
            return self.map_fn(s.value.args[0], True)
        raise Unsupported('dunder case %s' % ast.unparse(s)[:60])

    @staticmethod
    def isinstance_test(t):
        if isinstance(t, ast.Call) and isinstance(t.func, ast.Name) and t.func.id == 'isinstance':
            if len(t.args) == 2 and not t.keywords and isinstance(t.args[0], ast.Name) and t.args[0].id == 'other' \
                    and isinstance(t.args[1], ast.Name):
                return t.args[1].id
            raise Unsupported('isinstance test %s' % ast.unparse(t)[:60])
        return None

    def method(self, fdef):
        """-> decision list [(class name tested on `other` or '', action)]; the last entry has ''"""
        unary = fdef.name in UNARY
        a = fdef.args
        want = ['self'] if unary else ['self', 'other']
        if [x.arg for x in a.args] != want or a.vararg or a.kwarg or a.kwonlyargs or a.posonlyargs or a.defaults \
                or fdef.decorator_list:
            raise Unsupported('signature of %s' % fdef.name)
        for x in ast.walk(fdef):
            if isinstance(x, (ast.Global, ast.Nonlocal, ast.FunctionDef, ast.ClassDef, ast.With, ast.While, ast.For, ast.Try,
                              ast.Yield, ast.YieldFrom, ast.Await, ast.NamedExpr, ast.Import, ast.ImportFrom)) and x is not fdef:
                raise Unsupported('%s inside %s' % (type(x).__name__, fdef.name))
        out = []
        stmts = strip_doc(fdef.body)
        while stmts and isinstance(stmts[0], ast.If) and self.isinstance_test(stmts[0].test) is not None:
            s = stmts[0]
            if unary:
                raise Unsupported('isinstance test in a unary method')
            out.append((self.isinstance_test(s.test), self.action(s.body, unary)))
            if s.orelse:
                if stmts[1:]:
                    raise Unsupported('if/else followed by more statements in %s' % fdef.name)
                stmts = strip_doc(s.orelse)
            else:
                stmts = stmts[1:]
        out.append(('', self.action(stmts, unary)))
        return out


def cond_text(test):
    """canonical text of a guard: comprehension variables are numbered (their names do not matter)"""
    import copy
    t = copy.deepcopy(test)
    ren = {}
    for x in ast.walk(t):
        if isinstance(x, ast.comprehension):
            for y in ast.walk(x.target):
                if isinstance(y, ast.Name) and y.id not in ren:
                    ren[y.id] = '_c%d' % (len(ren) + 1)
    for x in ast.walk(t):
        if isinstance(x, ast.Name) and x.id in ren:
            x.id = ren[x.id]
        elif isinstance(x, (ast.Lambda, ast.NamedExpr)):
            raise Unsupported('guard %s' % ast.unparse(test)[:60])
    return ast.unparse(t)


def action_text(a):
    k = a[0]
    if k == 'binop':
        return '(DBinop %s %s %s)' % (gstr(a[1]), gopt_str(a[2]), gbool(a[3]))
    if k == 'mapscalar':
        return '(DMapScalar %s %s %s)' % (gstr(a[1]), gbool(a[2]), gbool(a[3]))
    if k == 'mapunary':
        return '(DMapUnary %s %s)' % (gstr(a[1]), gbool(a[2]))
    if k == 'notimplemented':
        return 'DNotImplemented'
    if k == 'raise':
        return '(DRaise %s)' % gstr(a[1])
    if k == 'reflect':
        return '(DReflect %s)' % gstr(a[1])
    if k == 'guard':
        return '(DGuard %s %s %s)' % (gstr(a[1]), action_text(a[2]), action_text(a[3]))
    raise Unsupported('action %r' % (a,))


def first_binop(a):
    """the DBinop reached in the block-array case (through guards: the guarded-yes side)"""
    if a[0] == 'binop':
        return a
    if a[0] == 'guard':
        return first_binop(a[2]) or first_binop(a[3])
    return None


def pretty(text, indent=4):
    """line breaks before every `(if` / `(match` / `(let`, indented by nesting depth (layout only)"""
    out, depth, i = [], 0, 0
    while i < len(text):
        c = text[i]
        if c == '(':
            if i > 0 and any(text.startswith(k, i) for k in ('(if ', '(match ', '(let ')):
                while out and out[-1] == ' ':
                    out.pop()
                out.append('\n' + ' ' * (indent + 2 * depth))
            depth += 1
        elif c == ')':
            depth -= 1
        out.append(c)
        i += 1
    return ''.join(out)


def table_text(name, ty, rows):
    if not rows:
        return 'Definition %s : %s := [].\n' % (name, ty)
    return 'Definition %s : %s :=\n  [ %s ].\n' % (name, ty, ';\n    '.join(rows))


def generate(repo):
    path = os.path.join(repo, 'symmray', 'block_core.py')
    tree = ast.parse(open(path).read())
    if not any(isinstance(n, ast.Import) and any(a.name == 'operator' and a.asname is None for a in n.names)
               for n in tree.body):
        raise Unsupported('block_core.py does not `import operator` at module level')
    for n in ast.walk(tree):
        names = []
        if isinstance(n, ast.Assign):
            names = [x.id for t in n.targets for x in ast.walk(t) if isinstance(x, ast.Name) and isinstance(x.ctx, ast.Store)]
        elif isinstance(n, (ast.AugAssign, ast.AnnAssign, ast.For)):
            names = [x.id for x in ast.walk(n.target) if isinstance(x, ast.Name) and isinstance(x.ctx, ast.Store)]
        elif isinstance(n, (ast.FunctionDef, ast.ClassDef)):
            names = [n.name]
        elif isinstance(n, ast.arg):
            names = [n.arg]
        elif isinstance(n, (ast.Import, ast.ImportFrom)):
            names = [(a.asname or a.name) for a in n.names
                     if not (isinstance(n, ast.Import) and a.name == 'operator' and a.asname is None)]
        for nm in names:
            if nm in ({'operator', 'isinstance', 'dict', 'tuple', 'list', 'NotImplemented', BASE, VECTOR} | EXCEPTIONS) \
                    and not (isinstance(n, ast.ClassDef) and nm in (BASE, VECTOR)):
                raise Unsupported('the name %s is rebound in block_core.py' % nm)

    def cls(name):
        found = [n for n in tree.body if isinstance(n, ast.ClassDef) and n.name == name]
        if len(found) != 1:
            raise Unsupported('class %s not found exactly once at module level' % name)
        if found[0].decorator_list or found[0].keywords:
            raise Unsupported('class %s is decorated / has a metaclass' % name)
        return ClassInfo(found[0])
    base, vector = cls(BASE), cls(VECTOR)
    if [ast.unparse(b) for b in vector.cls.bases] != [BASE] or base.cls.bases:
        raise Unsupported('bases of %s / %s' % (BASE, VECTOR))

    # `blocks` is a plain property returning self._blocks
    p = base.defs.get('blocks')
    pb = strip_doc(p.body) if isinstance(p, ast.FunctionDef) else []
    if not (isinstance(p, ast.FunctionDef) and len(p.decorator_list) == 1 and isinstance(p.decorator_list[0], ast.Name)
            and p.decorator_list[0].id == 'property' and [a.arg for a in p.args.args] == ['self'] and len(pb) == 1
            and isinstance(pb[0], ast.Return) and isinstance(pb[0].value, ast.Attribute) and pb[0].value.attr == '_blocks'
            and isinstance(pb[0].value.value, ast.Name) and pb[0].value.value.id == 'self'):
        raise Unsupported('%s.blocks is not a plain property returning self._blocks' % BASE)
    for special in ('__getattr__', '__getattribute__', '__setattr__', '__class_getitem__', '__init_subclass__'):
        if special in base.defs or special in vector.defs:
            raise Unsupported('%s defined in %s / %s' % (special, BASE, VECTOR))
    blocks_attrs = ('blocks', '_blocks')

    notes = []
    body, alias_flag, d_missing, d_inplace = compile_binop(base.method(BINOP), notes, blocks_attrs)
    apply_body = compile_apply(base.method(APPLY), notes, blocks_attrs)

    D = Dunders((d_missing, d_inplace))
    tables = {}
    for cname, info in ((BASE, base), (VECTOR, vector)):
        rows = []
        for nm in DUNDERS:
            if nm in info.defs:
                f = info.method(nm)
            elif nm in base.defs:
                f = base.method(nm)         # inherited
            else:
                continue
            rows.append((nm, D.method(f)))
        tables[cname] = rows
    for nm in DUNDERS:
        if nm not in base.defs:
            raise Unsupported('%s.%s not found' % (BASE, nm))

    translated = set(DUNDERS) | {BINOP, APPLY, 'blocks', '_blocks'}
    ov = overrides(repo, BASE, translated)

    out = [PREAMBLE]
    out.append('(* ---- the translated methods over insertion-ordered association lists ---- *)')
    out.append('Section BinopGen.')
    out.append('  Context {K V : Type} (ke : K -> K -> bool).\n')
    out.append('  (* %s.%s; None = it raises.  The result is the block dict of the returned object. *)' % (BASE, BINOP))
    out.append('  Definition binary_blockwise_op_gen (fn : V -> V -> V) (missing : option string)\n'
               '      (self_blocks other_blocks : list (K * V)) : option (list (K * V)) :=\n    %s.\n' % pretty(body))
    out.append('  (* %s.%s: the block dict of self afterwards *)' % (BASE, APPLY))
    out.append('  Definition apply_to_arrays_gen (fn : V -> V) (self_blocks : list (K * V)) : option (list (K * V)) :=\n'
               '    %s.\n' % pretty(apply_body))
    out.append('End BinopGen.\n')
    out.append('(* the object %s returns IS self (no copy was taken) *)' % BINOP)
    out.append('Definition binary_blockwise_op_result_is_self (inplace : bool) : bool :=\n  %s.\n' % alias_flag)
    out.append('(* defaults of the keyword parameters `missing`, `inplace` of %s *)' % BINOP)
    out.append('Definition binop_default_missing : missing_policy := %s.' % gopt_str(d_missing))
    out.append('Definition binop_default_inplace : inplace_flag := %s.\n' % gbool(d_inplace))
    ty = 'list (string * list (string * dunder_action))'
    for cname, var in ((BASE, 'dunder_table'), (VECTOR, 'dunder_table_vector')):
        out.append('(* %s: method -> decision list (class tested by isinstance(other, .), "" = otherwise) *)' % cname)
        out.append(table_text(var, ty, ['(%s, [%s])' % (gstr(nm), '; '.join('(%s, %s)' % (gstr(g), action_text(a)) for g, a in dl))
                                        for nm, dl in tables[cname]]))
    pty = 'list (string * (op_name * missing_policy * inplace_flag))'
    for cname, var in ((BASE, 'dunder_policy'), (VECTOR, 'dunder_policy_vector')):
        rows = []
        for nm, dl in tables[cname]:
            b = first_binop(dl[0][1]) if dl[0][0] else None
            if b is not None:
                rows.append('(%s, (%s, %s, %s))' % (gstr(nm), gstr(b[1]), gopt_str(b[2]), gbool(b[3])))
        out.append('(* %s: the call of %s made when `other` is a block array of the tested class *)' % (cname, BINOP))
        out.append(table_text(var, pty, rows))
    out.append('(* subclasses anywhere in the package that define one of the translated names *)')
    out.append(table_text('binop_overrides', 'list (string * string)', ['(%s, %s)' % (gstr(c), gstr(n)) for c, n in ov]))
    if notes:
        out.append('(* translator notes:\n' + '\n'.join('   ' + n for n in sorted(set(notes))) + '\n*)')
    return '\n'.join(out) + '\n'


def generate_all(repo):
    return {'BinopGen.v': generate(repo)}


if __name__ == '__main__':
    print(generate(os.environ.get('SYMMRAY_REPO', '/repo')))
