"""Regenerate coq/Gen/Ham.v from $SYMMRAY_REPO/symmray/{hamiltonians,
fermionic_local_operators,networks}.py (fail-closed, property C19).

What is translated (everything else raises `Unsupported`):

* `make_edge_factory`, `make_node_factory`: the three-way branch
  `isinstance(x, dict)` / `callable(x)` / else, the inner functions
  (`return x[key]`, `try: return x[k1] except KeyError: return x[k2]`,
  `return x`) -> functions into `option Q` (None = KeyError escapes).
* every `ham_*_from_edges`: the coordination-counting loop
  (`d[k] = d.setdefault(k', c0) + c1` / `d[k] = d.get(k', c0) + c1` statements,
  possibly inside `for x in (a, b):`, unrolled) as a `fold_left` over the
  edge list; the factory bindings; the dict comprehension building the keyword
  arguments of the local builder for each edge (a record per builder) and the
  dict keyed by `(cooa, coob)` (later duplicates overwrite, as in Python).
* the literal `terms` of `fermi_hubbard_local_array`,
  `fermi_hubbard_spinless_local_array` and the `h2` sum of `tfim_local_array`
  as symbolic terms (coefficient expression over t V U mu coordinations jx hz,
  operator string).
* the bond loop of `parse_edges_to_site_info` as a little statement list
  (which end gets which value appended to which field; swap test; sorted).
"""
import ast
import os
import sys

sys.path.insert(0, os.path.dirname(os.path.abspath(__file__)))
from pygallina import Unsupported  # noqa: E402


# ------------------------------------------------------------------ helpers
def find(tree, name):
    for n in tree.body:
        if isinstance(n, ast.FunctionDef) and n.name == name:
            return n
    raise Unsupported('function %s not found' % name)


def strip_doc(stmts):
    out = []
    for s in stmts:
        if isinstance(s, ast.Expr) and isinstance(s.value, ast.Constant) and isinstance(s.value.value, str):
            continue
        out.append(s)
    return out


def is_name(n, ident=None):
    return isinstance(n, ast.Name) and (ident is None or n.id == ident)


def need(cond, msg):
    if not cond:
        raise Unsupported(msg)


def argnames(fdef):
    a = fdef.args
    need(not (a.vararg or a.kwonlyargs or a.posonlyargs), '%s: unsupported parameter kinds' % fdef.name)
    return [x.arg for x in a.args]


# ------------------------------------------------------------------ factories
def fac_inner(fdef, p, kind, mode):
    """body of an inner `def edge_factory(cooa, coob)` -> Gallina term : option Q"""
    params = argnames(fdef)
    need(len(params) == (2 if kind == 'edge' else 1), 'factory arity of %s' % fdef.name)
    need(not fdef.args.defaults and fdef.args.kwarg is None, 'factory defaults')
    need(p not in params, 'factory parameter shadows the coefficient')
    body = strip_doc(fdef.body)
    need(len(body) == 1, 'factory body shape')

    def key(n):
        if kind == 'edge':
            need(isinstance(n, ast.Tuple) and len(n.elts) == 2 and all(is_name(e) and e.id in params for e in n.elts),
                 'edge dict key must be a pair of the parameters: %s' % ast.unparse(n))
            return '(%s, %s)' % (n.elts[0].id, n.elts[1].id)
        need(is_name(n) and n.id in params, 'node dict key must be the parameter: %s' % ast.unparse(n))
        return n.id

    keq = '(pair_eqb seqb seqb)' if kind == 'edge' else 'seqb'

    def ret(s):
        need(isinstance(s, ast.Return) and s.value is not None, 'factory: expected return')
        v = s.value
        if mode == 'scalar':
            need(is_name(v, p), 'scalar factory must return the coefficient itself: %s' % ast.unparse(v))
            return '(Some %s_c)' % p
        need(isinstance(v, ast.Subscript) and is_name(v.value, p), 'dict factory must return %s[key]: %s' % (p, ast.unparse(v)))
        return '(lookup %s %s %s_d)' % (keq, key(v.slice), p)

    s = body[0]
    if isinstance(s, ast.Return):
        return params, ret(s)
    if isinstance(s, ast.Try):
        need(len(s.body) == 1 and len(s.handlers) == 1 and not s.orelse and not s.finalbody, 'factory try shape')
        h = s.handlers[0]
        need(is_name(h.type, 'KeyError') and h.name is None and len(h.body) == 1, 'factory except clause')
        need(mode == 'dict', 'try in a scalar factory')
        a = ret(s.body[0])
        b = ret(h.body[0])
        return params, '(match %s with Some fv => Some fv | None => %s end)' % (a, b)
    raise Unsupported('factory statement %s' % type(s).__name__)


def gen_factory(tree, name, kind):
    f = find(tree, name)
    ps = argnames(f)
    need(len(ps) == 1 and not f.args.defaults, '%s parameters' % name)
    p = ps[0]
    body = strip_doc(f.body)
    need(len(body) == 2 and isinstance(body[0], ast.If) and isinstance(body[1], ast.Return) and is_name(body[1].value),
         '%s body shape' % name)
    rname = body[1].value.id
    i1 = body[0]
    need(ast.unparse(i1.test) == 'isinstance(%s, dict)' % p, '%s: first test' % name)
    need(len(i1.body) == 1 and isinstance(i1.body[0], ast.FunctionDef) and i1.body[0].name == rname, '%s: dict branch' % name)
    need(len(i1.orelse) == 1 and isinstance(i1.orelse[0], ast.If), '%s: elif' % name)
    i2 = i1.orelse[0]
    need(ast.unparse(i2.test) == 'callable(%s)' % p, '%s: second test' % name)
    need(len(i2.body) == 1 and isinstance(i2.body[0], ast.Assign) and len(i2.body[0].targets) == 1
         and is_name(i2.body[0].targets[0], rname) and is_name(i2.body[0].value, p), '%s: callable branch' % name)
    need(len(i2.orelse) == 1 and isinstance(i2.orelse[0], ast.FunctionDef) and i2.orelse[0].name == rname, '%s: else branch' % name)
    pd, dict_tm = fac_inner(i1.body[0], p, kind, 'dict')
    ps_, scal_tm = fac_inner(i2.orelse[0], p, kind, 'scalar')
    # rename the parameters of the scalar branch to those of the dict branch (alpha)
    need(len(pd) == len(ps_), 'factory arities differ')
    sites = pd
    ty = 'edge_coef S' if kind == 'edge' else 'node_coef S'
    C = ('EDict', 'EFun', 'EScalar') if kind == 'edge' else ('NDict', 'NFun', 'NScalar')
    txt = 'Definition %s (%s : %s) %s : option Q :=\n' % (name, p, ty, ' '.join('(%s : S)' % s for s in sites))
    txt += '  match %s with\n' % p
    txt += '  | %s %s_d => %s\n' % (C[0], p, dict_tm)
    txt += '  | %s %s_f => Some (%s_f %s)\n' % (C[1], p, p, ' '.join(sites))
    txt += '  | %s %s_c => %s\n' % (C[2], p, scal_tm)
    txt += '  end.\n'
    return txt


# ------------------------------------------------------------------ from_edges
BUILDERS = {
    'fermi_hubbard_local_array': ('hubbard_call', 'hc_', {'t': 'Q', 'U': 'QQ', 'mu': 'QQ', 'coordinations': 'ZZ'}),
    'fermi_hubbard_spinless_local_array': ('spinless_call', 'sc_', {'t': 'Q', 'V': 'Q', 'mu': 'QQ', 'coordinations': 'ZZ'}),
    'tfim_local_array': ('tfim_call', 'tc_', {'jx': 'Q', 'hz': 'QQ', 'coordinations': 'ZZ'}),
}


def site_expr(n, sites):
    need(is_name(n) and n.id in sites, 'expected a site variable, got %s' % ast.unparse(n))
    return n.id


def gen_coord_loop(loop, dname, edges_name):
    """for a, b in edges:  d[k] = d.setdefault(k', c0) + c1 ...
    Also accepted: `d[k] = d.get(k', c0) + c1` (no insertion before the store), and an inner
    `for x in (a, b): <such statements>` over a literal tuple of the two loop variables, which is
    unrolled (the statements only store into d, so the loop is its body once per element, in order)."""
    need(isinstance(loop, ast.For) and not loop.orelse, 'coordination loop')
    need(is_name(loop.iter, edges_name), 'coordination loop must iterate over %s' % edges_name)
    tg = loop.target
    need(isinstance(tg, ast.Tuple) and len(tg.elts) == 2 and all(is_name(e) for e in tg.elts), 'loop target')
    sites = [e.id for e in tg.elts]
    need(len(set(sites)) == 2 and dname not in sites and edges_name not in sites, 'loop target names')

    def stmts(body, sub):
        """sub: python name usable as a site expression -> the outer loop variable it stands for"""
        out = ''
        for s in strip_doc(body):
            if isinstance(s, ast.For):
                need(not s.orelse and is_name(s.target) and s.target.id not in sub
                     and s.target.id not in (dname, edges_name), 'inner coordination loop target')
                need(isinstance(s.iter, ast.Tuple) and s.iter.elts, 'inner coordination loop must run over a literal tuple')
                for e in s.iter.elts:
                    sub2 = dict(sub)
                    sub2[s.target.id] = sub[site_expr(e, list(sub))]
                    out += stmts(s.body, sub2)
                continue
            need(isinstance(s, ast.Assign) and len(s.targets) == 1, 'coordination loop statement')
            t = s.targets[0]
            need(isinstance(t, ast.Subscript) and is_name(t.value, dname), 'coordination loop target')
            k = sub[site_expr(t.slice, list(sub))]
            v = s.value
            need(isinstance(v, ast.BinOp) and isinstance(v.op, ast.Add), 'coordination increment')
            c = v.left
            need(isinstance(c, ast.Call) and isinstance(c.func, ast.Attribute) and c.func.attr in ('setdefault', 'get')
                 and is_name(c.func.value, dname) and len(c.args) == 2 and not c.keywords, 'setdefault call')
            k2 = sub[site_expr(c.args[0], list(sub))]
            need(isinstance(c.args[1], ast.Constant) and type(c.args[1].value) is int, 'setdefault default')
            need(isinstance(v.right, ast.Constant) and type(v.right.value) is int, 'increment constant')
            if c.func.attr == 'setdefault':
                out += ('let %s := (let \'(sd_v, sd_d) := setdefault seqb %s (%d)%%Z %s in dset seqb %s (Z.add sd_v (%d)%%Z) sd_d) in\n       '
                        % (dname, k2, c.args[1].value, dname, k, v.right.value))
            else:
                out += ('let %s := (dset seqb %s (Z.add (match lookup seqb %s %s with Some gt_v => gt_v | None => (%d)%%Z end) (%d)%%Z) %s) in\n       '
                        % (dname, k, k2, dname, c.args[1].value, v.right.value, dname))
        return out

    body = stmts(loop.body, {x: x for x in sites})
    return "fold_left (fun %s '(%s, %s) =>\n       %s%s) %s []" % (dname, sites[0], sites[1], body, dname, edges_name)


def gen_from_edges(tree, name):
    f = find(tree, name)
    params = argnames(f)
    need(f.args.kwarg is None, '%s: **kwargs' % name)
    need(params[:2] == ['symmetry', 'edges'], '%s: leading parameters' % name)
    body = strip_doc(f.body)
    imported = set()
    stmts = []
    for s in body:
        if isinstance(s, ast.ImportFrom):
            imported |= {a.asname or a.name for a in s.names}
        else:
            stmts.append(s)
    need(len(stmts) >= 3, '%s: body shape' % name)
    s0 = stmts[0]
    need(isinstance(s0, ast.Assign) and len(s0.targets) == 1 and is_name(s0.targets[0])
         and isinstance(s0.value, ast.Dict) and not s0.value.keys, '%s: coordinations = {}' % name)
    dname = s0.targets[0].id
    loop_tm = gen_coord_loop(stmts[1], dname, 'edges')
    factories = {}          # local name -> (kind, coefficient parameter)
    for s in stmts[2:-1]:
        need(isinstance(s, ast.Assign) and len(s.targets) == 1 and is_name(s.targets[0]) and isinstance(s.value, ast.Call)
             and isinstance(s.value.func, ast.Name) and s.value.func.id in ('make_edge_factory', 'make_node_factory')
             and len(s.value.args) == 1 and not s.value.keywords and is_name(s.value.args[0])
             and s.value.args[0].id in params[2:], '%s: factory binding %s' % (name, ast.unparse(s)))
        need(s.targets[0].id not in factories and s.targets[0].id != dname, 'factory rebound')
        factories[s.targets[0].id] = ('edge' if s.value.func.id == 'make_edge_factory' else 'node', s.value.args[0].id)
    r = stmts[-1]
    need(isinstance(r, ast.Return) and isinstance(r.value, ast.DictComp), '%s: return {..}' % name)
    dc = r.value
    need(len(dc.generators) == 1 and not dc.generators[0].ifs and not dc.generators[0].is_async, 'comprehension shape')
    g = dc.generators[0]
    need(is_name(g.iter, 'edges'), 'comprehension must iterate over edges')
    need(isinstance(g.target, ast.Tuple) and len(g.target.elts) == 2 and all(is_name(e) for e in g.target.elts), 'comprehension target')
    sites = [e.id for e in g.target.elts]
    need(len(set(sites)) == 2, 'comprehension target names')
    need(isinstance(dc.key, ast.Tuple) and len(dc.key.elts) == 2, 'comprehension key')
    key = '(%s, %s)' % (site_expr(dc.key.elts[0], sites), site_expr(dc.key.elts[1], sites))
    call = dc.value
    need(isinstance(call, ast.Call) and is_name(call.func) and call.func.id in BUILDERS, 'local builder call')
    bname = call.func.id
    need(bname in imported or any(isinstance(n, ast.FunctionDef) and n.name == bname for n in tree.body),
         'builder %s is neither imported nor defined' % bname)
    rec, pref, fields = BUILDERS[bname]
    need(len(call.args) == 1 and is_name(call.args[0], 'symmetry'), 'builder positional arguments')
    binds = []
    counter = [0]

    def scalar(n):
        """-> (bound variable, type)"""
        counter[0] += 1
        v = 'k_%d' % counter[0]
        if isinstance(n, ast.Call) and is_name(n.func) and n.func.id in factories and not n.keywords:
            kind, coef = factories[n.func.id]
            if kind == 'edge':
                need(len(n.args) == 2, 'edge factory call arity')
                binds.append((v, 'make_edge_factory %s %s %s' % (coef, site_expr(n.args[0], sites), site_expr(n.args[1], sites))))
            else:
                need(len(n.args) == 1, 'node factory call arity')
                binds.append((v, 'make_node_factory %s %s' % (coef, site_expr(n.args[0], sites))))
            return v, 'Q'
        if isinstance(n, ast.Subscript) and is_name(n.value, dname):
            binds.append((v, 'lookup seqb %s %s' % (site_expr(n.slice, sites), dname)))
            return v, 'Z'
        raise Unsupported('keyword value %s' % ast.unparse(n))

    vals = {}
    seen_kw = set()
    for kw in call.keywords:
        need(kw.arg is not None, 'builder **kwargs')
        need(kw.arg not in seen_kw, 'keyword %s repeated' % kw.arg)
        seen_kw.add(kw.arg)
    # keywords are translated in the canonical field order (their order in the
    # source only decides which exception escapes first; every exception is None)
    order = {k: i for i, k in enumerate(fields)}
    for kw in sorted(call.keywords, key=lambda k: order.get(k.arg, len(order))):
        if kw.arg == 'like':
            need(is_name(kw.value, 'like'), 'like pass-through')
            continue
        need(kw.arg in fields and kw.arg not in vals, 'unexpected keyword %s of %s' % (kw.arg, bname))
        ty = fields[kw.arg]
        if len(ty) == 2:
            need(isinstance(kw.value, ast.Tuple) and len(kw.value.elts) == 2, 'keyword %s must be a pair' % kw.arg)
            a, ta = scalar(kw.value.elts[0])
            b, tb = scalar(kw.value.elts[1])
            need(ta == ty[0] and tb == ty[1], 'keyword %s component types' % kw.arg)
            vals[kw.arg] = '(%s, %s)' % (a, b)
        else:
            a, ta = scalar(kw.value)
            need(ta == ty, 'keyword %s type' % kw.arg)
            vals[kw.arg] = a
    need(set(vals) == set(fields), '%s: keywords %s, expected %s' % (bname, sorted(vals), sorted(fields)))
    coefs = params[2:]
    coefs = [c for c in coefs if c != 'like']
    used = {c for (_, c) in factories.values()}
    need(set(coefs) == used, '%s: coefficient parameters %s vs factories %s' % (name, coefs, sorted(used)))
    kinds = {c: k for (k, c) in factories.values()}
    need(len(kinds) == len(factories), 'a coefficient is wrapped twice')
    cbind = ' '.join('(%s : %s_coef S)' % (c, kinds[c]) for c in coefs)
    fieldname = lambda k: pref + ('coord' if k == 'coordinations' else k)
    inner = 'Some {| ' + '; '.join('%s := %s' % (fieldname(k), vals[k]) for k in fields) + ' |}'
    for v, tm in reversed(binds):
        inner = 'obind (%s) (fun %s =>\n    %s)' % (tm, v, inner)
    out = 'Definition %s_coordinations (edges : list (S * S)) : list (S * Z) :=\n  %s.\n\n' % (name, loop_tm)
    out += 'Definition %s_call %s (%s : list (S * Z)) (%s %s : S) : option %s :=\n    %s.\n\n' % (
        name, cbind, dname, sites[0], sites[1], rec, inner)
    out += ('Definition %s (edges : list (S * S)) %s : option (list ((S * S) * %s)) :=\n'
            '  let %s := %s_coordinations edges in\n'
            "  fold_left (fun acc '(%s, %s) =>\n"
            '      obind acc (fun acc_d => obind (%s_call %s %s %s %s) (fun acc_c =>\n'
            '      Some (dset (pair_eqb seqb seqb) %s acc_c acc_d)))) edges (Some []).\n') % (
        name, cbind, rec, dname, name, sites[0], sites[1], name, ' '.join(coefs), dname, sites[0], sites[1], key)
    return out


def gen_heisenberg(tree):
    f = find(tree, 'ham_heisenberg_from_edges')
    body = strip_doc(f.body)
    r = body[-1]
    need(isinstance(r, ast.Return) and isinstance(r.value, ast.DictComp), 'heisenberg: return {..}')
    dc = r.value
    need(len(dc.generators) == 1 and not dc.generators[0].ifs, 'heisenberg comprehension')
    g = dc.generators[0]
    need(is_name(g.iter, 'edges') and isinstance(g.target, ast.Tuple) and len(g.target.elts) == 2
         and all(is_name(e) for e in g.target.elts), 'heisenberg comprehension target')
    sites = [e.id for e in g.target.elts]
    need(isinstance(dc.key, ast.Tuple) and len(dc.key.elts) == 2, 'heisenberg key')
    key = '(%s, %s)' % (site_expr(dc.key.elts[0], sites), site_expr(dc.key.elts[1], sites))
    need(is_name(dc.value) and dc.value.id not in sites, 'heisenberg value must not depend on the edge')
    return ('Definition ham_heisenberg_from_edges {HT : Type} (%s : HT) (edges : list (S * S)) : list ((S * S) * HT) :=\n'
            "  fold_left (fun acc '(%s, %s) => dset (pair_eqb seqb seqb) %s %s acc) edges [].\n") % (
        dc.value.id, sites[0], sites[1], key, dc.value.id)


# ------------------------------------------------------------------ local builders' term lists
LABELS = {'a': (0, 'SpinNone'), 'b': (1, 'SpinNone'), 'au': (0, 'SpinUp'), 'ad': (0, 'SpinDn'),
          'bu': (1, 'SpinUp'), 'bd': (1, 'SpinDn')}
PAIRSYM = {'U': ('SyU0', 'SyU1'), 'mu': ('SyMu0', 'SyMu1'), 'hz': ('SyHz0', 'SyHz1'), 'coordinations': ('SyC0', 'SyC1')}
SCALSYM = {'t': 'SyT', 'V': 'SyV', 'jx': 'SyJx'}


def try_unpack(s):
    """try: X, Y = P  except TypeError: X = Y = P   ->  (X, Y, P)"""
    if not (isinstance(s, ast.Try) and len(s.body) == 1 and len(s.handlers) == 1 and not s.orelse and not s.finalbody):
        return None
    b, h = s.body[0], s.handlers[0]
    if not (isinstance(b, ast.Assign) and len(b.targets) == 1 and isinstance(b.targets[0], ast.Tuple)
            and len(b.targets[0].elts) == 2 and all(is_name(e) for e in b.targets[0].elts) and is_name(b.value)):
        return None
    x, y = (e.id for e in b.targets[0].elts)
    if not (is_name(h.type, 'TypeError') and len(h.body) == 1 and isinstance(h.body[0], ast.Assign)):
        return None
    a = h.body[0]
    if not (sorted(t.id for t in a.targets if is_name(t)) == sorted([x, y]) and len(a.targets) == 2
            and is_name(a.value, b.value.id)):
        return None
    return x, y, b.value.id


def coef_expr(n, syms, params):
    if isinstance(n, ast.Constant):
        v = n.value
        if type(v) is int:
            return '(CConst (%d)%%Z)' % v
        if type(v) is float and v.is_integer():
            return '(CConst (%d)%%Z)' % int(v)
        raise Unsupported('coefficient constant %r' % (v,))
    if isinstance(n, ast.Name):
        if n.id in syms:
            return '(CSym %s)' % syms[n.id]
        if n.id in SCALSYM and n.id in params:
            return '(CSym %s)' % SCALSYM[n.id]
        raise Unsupported('coefficient symbol %s' % n.id)
    if isinstance(n, ast.Subscript) and is_name(n.value, 'coordinations') and 'coordinations' in params \
            and isinstance(n.slice, ast.Constant) and n.slice.value in (0, 1) and type(n.slice.value) is int:
        return '(CSym %s)' % PAIRSYM['coordinations'][n.slice.value]
    if isinstance(n, ast.UnaryOp) and isinstance(n.op, ast.USub):
        return '(CNeg %s)' % coef_expr(n.operand, syms, params)
    if isinstance(n, ast.UnaryOp) and isinstance(n.op, ast.UAdd):
        return coef_expr(n.operand, syms, params)
    if isinstance(n, ast.BinOp):
        c = {ast.Add: 'CAdd', ast.Sub: 'CSub', ast.Mult: 'CMul', ast.Div: 'CDiv'}.get(type(n.op))
        need(c is not None, 'coefficient operator %s' % type(n.op).__name__)
        return '(%s %s %s)' % (c, coef_expr(n.left, syms, params), coef_expr(n.right, syms, params))
    raise Unsupported('coefficient expression %s' % ast.unparse(n))


def scan_local_builder(f, result_name):
    """common part: parameter check, try-unpack bindings; returns (params, syms, other statements)"""
    params = argnames(f)
    need(params[0] == 'symmetry', '%s: first parameter' % f.name)
    syms = {}
    rest = []
    for s in strip_doc(f.body):
        u = try_unpack(s)
        if u:
            x, y, p = u
            need(p in PAIRSYM and p in params, '%s: unpack of %s' % (f.name, p))
            need(x not in syms and y not in syms and x != y and x not in params and y not in params, 'unpack names')
            syms[x], syms[y] = PAIRSYM[p]
        else:
            rest.append(s)
    return params, syms, rest


def check_no_rebinding(stmts, protected, fname):
    """every remaining statement is an import, a plain assignment to a
    non-protected name, or the final return"""
    count = {p: 0 for p in protected}
    for s in stmts:
        if isinstance(s, (ast.Import, ast.ImportFrom)):
            for a in s.names:
                need((a.asname or a.name) not in protected, '%s: import shadows %s' % (fname, a.name))
            continue
        if isinstance(s, ast.If):
            # the `if symmetry != ...: raise` guard
            need(all(isinstance(x, ast.Raise) for x in s.body) and not s.orelse, '%s: if statement' % fname)
            continue
        if isinstance(s, ast.Return):
            continue
        need(isinstance(s, ast.Assign) and len(s.targets) == 1, '%s: statement %s' % (fname, type(s).__name__))
        for nm in ast.walk(s.targets[0]):
            if isinstance(nm, ast.Name) and nm.id in count:
                count[nm.id] += 1
        need(all(isinstance(nm, (ast.Name, ast.Tuple, ast.Store, ast.Load)) for nm in ast.walk(s.targets[0])),
             '%s: assignment target' % fname)
    return count


def gen_fermi_terms(tree, fname, coqname):
    f = find(tree, fname)
    params, syms, rest = scan_local_builder(f, 'terms')
    ops = {}
    terms_node = None
    for s in rest:
        if not (isinstance(s, ast.Assign) and len(s.targets) == 1):
            continue
        t, v = s.targets[0], s.value
        # a, b = map(FermionicOperator, "ab")
        if isinstance(t, ast.Tuple) and isinstance(v, ast.Call) and is_name(v.func, 'map') and len(v.args) == 2 \
                and is_name(v.args[0], 'FermionicOperator') and isinstance(v.args[1], ast.Constant) \
                and isinstance(v.args[1].value, str) and len(v.args[1].value) == len(t.elts):
            for e, ch in zip(t.elts, v.args[1].value):
                need(is_name(e) and e.id not in ops, 'operator binding')
                ops[e.id] = ch
        # au = FermionicOperator("au")
        elif is_name(t) and isinstance(v, ast.Call) and is_name(v.func, 'FermionicOperator'):
            need(len(v.args) == 1 and not v.keywords and isinstance(v.args[0], ast.Constant)
                 and isinstance(v.args[0].value, str) and t.id not in ops, 'FermionicOperator(...) binding')
            ops[t.id] = v.args[0].value
        elif is_name(t, 'terms'):
            need(terms_node is None, 'terms assigned twice')
            terms_node = v
    need(terms_node is not None, '%s: no terms' % fname)
    protected = set(ops) | set(syms) | {'terms'} | set(params)
    cnt = check_no_rebinding(rest, protected, fname)
    for k, c in cnt.items():
        need(c == (1 if (k in ops or k == 'terms') else 0), '%s: %s is rebound' % (fname, k))
    for lab in ops.values():
        need(lab in LABELS, 'operator label %r' % lab)
    need(len(set(ops.values())) == len(ops), 'duplicate operator labels')
    r = rest[-1]
    need(isinstance(r, ast.Return) and isinstance(r.value, ast.Call) and is_name(r.value.func, 'build_local_fermionic_array')
         and r.value.args and is_name(r.value.args[0], 'terms'), '%s: must return build_local_fermionic_array(terms, ...)' % fname)

    def op(n):
        dual = False
        while isinstance(n, ast.Attribute) and n.attr == 'dag':
            dual = not dual
            n = n.value
        need(is_name(n) and n.id in ops, 'operator %s' % ast.unparse(n))
        site, spin = LABELS[ops[n.id]]
        return '(%d%%nat, %s, %s)' % (site, spin, 'true' if dual else 'false')

    need(isinstance(terms_node, (ast.Tuple, ast.List)), 'terms literal')
    items = []
    for el in terms_node.elts:
        need(isinstance(el, ast.Tuple) and len(el.elts) == 2 and isinstance(el.elts[1], (ast.Tuple, ast.List)), 'term shape')
        c = coef_expr(el.elts[0], syms, params)
        items.append('  (%s,\n     [%s])' % (c, '; '.join(op(o) for o in el.elts[1].elts)))
    return 'Definition %s : list (cexpr * list lop) := [\n%s\n].\n' % (coqname, ';\n'.join(items))


def gen_tfim_terms(tree):
    f = find(tree, 'tfim_local_array')
    params, syms, rest = scan_local_builder(f, 'h2')
    paulis = {}
    h2 = None
    for s in rest:
        if not (isinstance(s, ast.Assign) and len(s.targets) == 1):
            continue
        t, v = s.targets[0], s.value
        if isinstance(t, ast.Tuple) and isinstance(v, ast.GeneratorExp):
            need(len(v.generators) == 1 and not v.generators[0].ifs and is_name(v.generators[0].target)
                 and isinstance(v.generators[0].iter, ast.Constant) and isinstance(v.generators[0].iter.value, str),
                 'pauli generator')
            letters = v.generators[0].iter.value
            var = v.generators[0].target.id
            e = v.elt
            need(isinstance(e, ast.Call) and ast.unparse(e.func) == 'qu.pauli' and len(e.args) == 1 and is_name(e.args[0], var),
                 'pauli call')
            need(len(letters) == len(t.elts), 'pauli unpack')
            for nm, ch in zip(t.elts, letters):
                need(is_name(nm) and ch in 'IXYZ' and nm.id not in paulis, 'pauli binding')
                paulis[nm.id] = 'P' + ch
        elif is_name(t, 'h2'):
            need(h2 is None, 'h2 assigned twice')
            h2 = v
    need(h2 is not None, 'tfim: no h2')
    protected = set(paulis) | set(syms) | {'h2'} | set(params)
    cnt = check_no_rebinding(rest, protected, 'tfim_local_array')
    for k, c in cnt.items():
        need(c == (1 if (k in paulis or k == 'h2') else 0), 'tfim: %s is rebound' % k)
    r = rest[-1]
    need(isinstance(r, ast.Return) and isinstance(r.value, ast.Call) and r.value.args
         and ast.unparse(r.value.args[0]).startswith('h2.reshape('), 'tfim: must return from_dense(h2.reshape(...), ...)')

    def addends(n):
        if isinstance(n, ast.BinOp) and isinstance(n.op, ast.Add):
            return addends(n.left) + addends(n.right)
        return [n]

    items = []
    for a in addends(h2):
        need(isinstance(a, ast.BinOp) and isinstance(a.op, ast.Mult) and isinstance(a.right, ast.BinOp)
             and isinstance(a.right.op, ast.BitAnd), 'tfim addend %s' % ast.unparse(a))
        c = coef_expr(a.left, syms, params)
        l, rr = a.right.left, a.right.right
        need(is_name(l) and l.id in paulis and is_name(rr) and rr.id in paulis, 'tfim kron factors')
        items.append('  (%s,\n     [(0%%nat, %s); (1%%nat, %s)])' % (c, paulis[l.id], paulis[rr.id]))
    return 'Definition tfim_terms : list (cexpr * list lpauli) := [\n%s\n].\n' % ';\n'.join(items)


# ------------------------------------------------------------------ site info skeleton
def gen_site_info(tree):
    f = find(tree, 'parse_edges_to_site_info')
    params = argnames(f)
    need(params[:2] == ['edges', 'bond_dim'], 'parse_edges_to_site_info parameters')
    loops = [s for s in f.body if isinstance(s, ast.For)]
    need(len(loops) == 2, 'parse_edges_to_site_info: two loops expected')
    l1, l2 = loops
    # --- loop 1
    if isinstance(l1.iter, ast.Call) and is_name(l1.iter.func, 'sorted') and len(l1.iter.args) == 1 \
            and is_name(l1.iter.args[0], 'edges') and not l1.iter.keywords:
        is_sorted = True
    elif is_name(l1.iter, 'edges'):
        is_sorted = False
    else:
        raise Unsupported('site info: loop iterable %s' % ast.unparse(l1.iter))
    tg = l1.target
    need(isinstance(tg, ast.Tuple) and len(tg.elts) == 2 and all(is_name(e) for e in tg.elts), 'site info loop target')
    A, B = (e.id for e in tg.elts)
    body = strip_doc(l1.body)
    swap = 'SwapNever'
    if body and isinstance(body[0], ast.If):
        i = body[0]
        need(not i.orelse and len(i.body) == 1 and ast.unparse(i.body[0]) in ('%s, %s = (%s, %s)' % (A, B, B, A),), 'swap body')
        t = ast.unparse(i.test)
        if t in ('%s > %s' % (A, B), '%s < %s' % (B, A)):
            swap = 'SwapIfGt'
        elif t in ('%s < %s' % (A, B), '%s > %s' % (B, A)):
            swap = 'SwapIfLt'
        else:
            raise Unsupported('swap test %s' % t)
        body = body[1:]
    alias = {}
    create = []
    ind_name = None
    ind_order = None
    stm = []
    for s in body:
        if isinstance(s, ast.Assign) and len(s.targets) == 1 and is_name(s.targets[0]) and isinstance(s.value, ast.Call):
            c = s.value
            if isinstance(c.func, ast.Attribute) and c.func.attr == 'format' and is_name(c.func.value, 'bond_ind_id'):
                need(ind_name is None and len(c.args) == 2 and not c.keywords, 'bond index name')
                a0, a1 = site_expr(c.args[0], [A, B]), site_expr(c.args[1], [A, B])
                need({a0, a1} == {A, B}, 'bond index name must mention both ends')
                ind_name = s.targets[0].id
                ind_order = 'true' if (a0, a1) == (A, B) else 'false'
                continue
            if isinstance(c.func, ast.Attribute) and c.func.attr == 'setdefault' and is_name(c.func.value, 'sites'):
                need(len(c.args) == 2 and isinstance(c.args[1], ast.Dict) and not c.args[1].keys, 'sites.setdefault(site, {})')
                k = site_expr(c.args[0], [A, B])
                need(s.targets[0].id not in alias, 'alias rebound')
                alias[s.targets[0].id] = 'EndA' if k == A else 'EndB'
                create.append(alias[s.targets[0].id])
                continue
        # infoX.setdefault("field", []).append(value)
        need(isinstance(s, ast.Expr) and isinstance(s.value, ast.Call) and isinstance(s.value.func, ast.Attribute)
             and s.value.func.attr == 'append' and len(s.value.args) == 1, 'site info statement %s' % ast.unparse(s))
        inner = s.value.func.value
        need(isinstance(inner, ast.Call) and isinstance(inner.func, ast.Attribute) and inner.func.attr == 'setdefault'
             and is_name(inner.func.value) and inner.func.value.id in alias and len(inner.args) == 2
             and isinstance(inner.args[0], ast.Constant) and isinstance(inner.args[1], ast.List) and not inner.args[1].elts,
             'site info append target')
        field = {'inds': 'FInds', 'duals': 'FDuals', 'shape': 'FShape'}.get(inner.args[0].value)
        need(field is not None, 'site info field %r' % (inner.args[0].value,))
        v = s.value.args[0]
        if is_name(v) and v.id == ind_name:
            val = 'VInd'
        elif is_name(v, 'bond_dim'):
            val = 'VBondDim'
        elif isinstance(v, ast.Constant) and isinstance(v.value, (int, bool)):
            val = '(VConst (%d)%%Z)' % int(v.value)
        else:
            raise Unsupported('site info value %s' % ast.unparse(v))
        stm.append('(%s, %s, %s)' % (alias[inner.func.value.id], field, val))
    need(ind_name is not None and set(alias.values()) == {'EndA', 'EndB'}, 'site info: names')
    # --- loop 2: coordination is taken before the physical index is appended
    need(is_name(l2.iter, 'sites') and is_name(l2.target), 'site info second loop')
    sv = l2.target.id
    b2 = strip_doc(l2.body)
    coord_pos = None
    phys = []
    phys_pos = None

    def site_field(n):
        """sites[site]["field"] -> field"""
        if isinstance(n, ast.Subscript) and isinstance(n.slice, ast.Constant) and isinstance(n.value, ast.Subscript) \
                and is_name(n.value.value, 'sites') and is_name(n.value.slice, sv):
            return n.slice.value
        return None

    for pos, s in enumerate(b2):
        if isinstance(s, ast.Assign) and len(s.targets) == 1 and site_field(s.targets[0]) == 'coordination':
            need(coord_pos is None, 'coordination assigned twice')
            need(ast.unparse(s.value) == "len(sites[%s]['inds'])" % sv, 'coordination = len(inds): %s' % ast.unparse(s.value))
            coord_pos = pos
        elif isinstance(s, ast.If) and ast.unparse(s.test) == 'phys_dim is not None':
            need(phys_pos is None and not s.orelse, 'phys block')
            phys_pos = pos
            for q in s.body:
                if isinstance(q, ast.Expr) and isinstance(q.value, ast.Call) and isinstance(q.value.func, ast.Attribute) \
                        and q.value.func.attr == 'append':
                    fld = site_field(q.value.func.value)
                    need(fld in ('inds', 'duals', 'shape') and len(q.value.args) == 1, 'phys append')
                    v = q.value.args[0]
                    if is_name(v, 'site_ind'):
                        val = 'VPhysInd'
                    elif is_name(v, 'phys_dim'):
                        val = 'VPhysDim'
                    elif isinstance(v, ast.Constant) and isinstance(v.value, (int, bool)):
                        val = '(VConst (%d)%%Z)' % int(v.value)
                    else:
                        raise Unsupported('phys value %s' % ast.unparse(v))
                    phys.append('(%s, %s)' % ({'inds': 'FInds', 'duals': 'FDuals', 'shape': 'FShape'}[fld], val))
                elif isinstance(q, ast.If):
                    # starmap / plain formatting of the physical index name
                    need(all(isinstance(z, ast.Assign) and is_name(z.targets[0], 'site_ind') for z in q.body + q.orelse),
                         'phys name block')
                else:
                    raise Unsupported('phys statement %s' % ast.unparse(q))
        else:
            # tag handling: must not touch inds/duals/shape/coordination
            for nd in ast.walk(s):
                if isinstance(nd, ast.Constant) and nd.value in ('inds', 'duals', 'shape', 'coordination'):
                    raise Unsupported('second loop touches %s outside the recognised statements' % nd.value)
    need(coord_pos is not None and phys_pos is not None, 'site info second loop shape')
    out = 'Definition site_info_sorted : bool := %s.\n' % ('true' if is_sorted else 'false')
    out += 'Definition site_info_swap : si_swap := %s.\n' % swap
    out += 'Definition site_info_name_ab : bool := %s.\n' % ind_order
    out += 'Definition site_info_create : list si_end := [%s].\n' % '; '.join(create)
    out += 'Definition site_info_body : list si_stmt := [\n  %s\n].\n' % ';\n  '.join(stm)
    out += 'Definition site_info_coordination_before_phys : bool := %s.\n' % ('true' if coord_pos < phys_pos else 'false')
    out += 'Definition site_info_phys : list (si_field * si_val) := [%s].\n' % '; '.join(phys)
    return out


# ------------------------------------------------------------------ driver
def generate(repo):
    rd = lambda fn: ast.parse(open(os.path.join(repo, 'symmray', fn)).read())
    th = rd('hamiltonians.py')
    tl = rd('fermionic_local_operators.py')
    tn = rd('networks.py')
    out = ['(* GENERATED by tr/gen_ham.py from symmray/hamiltonians.py, fermionic_local_operators.py,',
           '   networks.py -- do not edit. *)',
           'From SV Require Import Base.Prelude Model.HamBase.',
           'Open Scope Z_scope.', '',
           'Section Gen.',
           'Context {S : Type} (seqb : S -> S -> bool).', '']
    out.append(gen_factory(th, 'make_edge_factory', 'edge'))
    out.append(gen_factory(th, 'make_node_factory', 'node'))
    for nm in ('ham_tfim_from_edges', 'ham_fermi_hubbard_from_edges', 'ham_fermi_hubbard_spinless_from_edges'):
        out.append(gen_from_edges(th, nm))
    out.append(gen_heisenberg(th))
    out.append('End Gen.')
    out.append('')
    out.append(gen_fermi_terms(tl, 'fermi_hubbard_spinless_local_array', 'fermi_hubbard_spinless_terms'))
    out.append(gen_fermi_terms(tl, 'fermi_hubbard_local_array', 'fermi_hubbard_terms'))
    out.append(gen_tfim_terms(th))
    out.append(gen_site_info(tn))
    return '\n'.join(out) + '\n'


def generate_all(repo):
    return {'Ham.v': generate(repo)}


if __name__ == '__main__':
    print(generate(os.environ.get('SYMMRAY_REPO', '/repo')))
