"""Regenerate coq/Gen/HeapSites.v from $SYMMRAY_REPO/symmray/{block_core,
abelian_core,fermionic_core,linalg}.py (fail-closed).

An AST scan for the C14 tie: for every function / method it lists

* the *mutation sites*: subscript stores (`x[k] = v`, `x[k] op= v`,
  `del x[k]`), calls of mutating container methods (`pop popitem update clear
  setdefault ...`), attribute rebinding (`x._blocks = ...`), calls of the
  documented in-place methods (`modify`, `apply_to_arrays`, `_map_blocks`, ...)
  and every call that passes an `inplace=` keyword which is not literally
  False;
* for each, *whose state is written* (a small flow-sensitive analysis of the
  local names): something the function created itself (Fresh), `new = self if
  inplace else self.copy()` (Guarded), `self` (Self), another parameter
  (Operand);
* whether the site is guarded by the in-place flag (`if inplace:` or
  `inplace=inplace` forwarding);
* the *binding sites*: which dict expression is installed as `_blocks` /
  `_phases` of an object (`x._blocks = e`, `modify(blocks=e)`,
  `copy_with(blocks=e)`, `cls(blocks=e)`), classified as a new dict, a
  caller supplied dict, or a dict that belongs to another object (sharing);
* the functions that take an `inplace` parameter.

The policy (which combinations are acceptable) lives in Coq
(Model/HeapSitePolicy.v); theorem `no_operand_site` evaluates it on the
generated list.
"""
import ast
import os
import sys

sys.path.insert(0, os.path.dirname(os.path.abspath(__file__)))
from pygallina import Unsupported  # noqa: E402

FILES = ['block_core.py', 'abelian_core.py', 'fermionic_core.py', 'linalg.py']
DICT_ATTRS = {'blocks', '_blocks', 'phases', '_phases'}
# container methods that change their receiver
MUTATORS = {'pop', 'popitem', 'update', 'clear', 'setdefault', '__setitem__', '__delitem__',
            'append', 'extend', 'insert', 'remove', 'sort', 'reverse', 'add', 'discard',
            'difference_update', 'intersection_update', 'symmetric_difference_update', 'fill', 'put',
            'itemset', 'resize', 'setfield', 'setflags', 'partition', 'move_to_end'}
# symmray methods that change their receiver without taking a flag
DOC_INPLACE = {'modify', 'apply_to_arrays', '_map_blocks', 'set_params', 'fill_missing_blocks', 'drop_missing_blocks'}
# module level helpers that write through one of their arguments: name -> index
OUT_PARAM = {'resolve_combined_oddpos': 2}
# calls whose result is a new object however they are called
FRESH_CALLS = {'copy', 'copy_with', 'dict', 'list', 'tuple', 'set', 'sorted', 'defaultdict', 'OrderedDict', 'zip', 'map',
               'range', 'enumerate', 'reversed', 'len', 'int', 'float', 'bool', 'sum', 'min', 'max', 'all', 'any',
               'getattr', 'isinstance', 'hasattr', 'next', 'iter', 'type', 'str', 'repr', 'hash', 'id'}
# numpy level functions that may return a view of their first argument
VIEW_CALLS = {'_transpose', '_reshape', 'transpose', 'reshape', 'ravel', 'squeeze', 'expand_dims', 'view', 'diagonal',
              'swapaxes', 'moveaxis', 'asarray', 'real', 'imag', '_einsum', 'einsum'}

ORDER = {'Fresh': 0, 'Guarded': 1, 'Self': 2, 'Operand': 3, 'Global': 4}


def join(a, b):
    return a if ORDER[a] >= ORDER[b] else b


class Scan:
    def __init__(self, fname):
        self.fname = fname
        self.sites = []     # (func, line, what, whose, guarded)
        self.binds = []     # (func, line, field, source)
        self.flagged = []   # functions with an `inplace` parameter
        self.funcs = 0

    # ------------------------------------------------------------ functions
    def function(self, fdef, qual, outer_env=None):
        self.funcs += 1
        env = dict(outer_env or {})
        a = fdef.args
        names = [x.arg for x in a.posonlyargs + a.args + a.kwonlyargs]
        if a.vararg:
            names.append(a.vararg.arg)
        if a.kwarg:
            names.append(a.kwarg.arg)
        decos = [d.id if isinstance(d, ast.Name) else getattr(d, 'attr', '') for d in fdef.decorator_list]
        for i, n in enumerate(names):
            if i == 0 and n == 'self':
                env[n] = 'Self'
            elif i == 0 and n == 'cls' and 'classmethod' in decos:
                env[n] = 'Fresh'
            elif qual.split('.')[-1] in OUT_PARAM and OUT_PARAM[qual.split('.')[-1]] == i:
                env[n] = 'Guarded'
            else:
                env[n] = 'Operand'
        self.params = set(names)
        if 'inplace' in names:
            self.flagged.append(qual)
        self.block(fdef.body, env, qual, False)

    def block(self, stmts, env, qual, guarded):
        for s in stmts:
            self.stmt(s, env, qual, guarded)

    # ------------------------------------------------------------ statements
    def stmt(self, s, env, qual, guarded):
        if isinstance(s, (ast.FunctionDef,)):
            self.function(s, qual + '.' + s.name, env)
            env[s.name] = 'Fresh'
        elif isinstance(s, ast.Assign):
            k = self.expr(s.value, env, qual, guarded)
            for t in s.targets:
                self.target(t, k, s.value, env, qual, guarded, s.lineno)
        elif isinstance(s, ast.AugAssign):
            k = self.expr(s.value, env, qual, guarded)
            if isinstance(s.target, ast.Name):
                env[s.target.id] = join(env.get(s.target.id, 'Fresh'), 'Fresh') if s.target.id in env else 'Fresh'
                # `x op= v` on a local name may mutate the object x refers to (lists, arrays)
                if env.get(s.target.id, 'Fresh') != 'Fresh':
                    self.site(qual, s.lineno, 'augassign', env[s.target.id], guarded)
            else:
                self.target(s.target, k, s.value, env, qual, guarded, s.lineno)
        elif isinstance(s, ast.AnnAssign):
            raise Unsupported('%s: annotated assignment in %s' % (self.fname, qual))
        elif isinstance(s, ast.Delete):
            for t in s.targets:
                if isinstance(t, ast.Subscript):
                    self.expr(t.slice, env, qual, guarded)
                    self.site(qual, s.lineno, 'delitem', self.expr(t.value, env, qual, guarded), guarded)
                elif isinstance(t, ast.Name):
                    env.pop(t.id, None)
                else:
                    raise Unsupported('%s: del of %s in %s' % (self.fname, type(t).__name__, qual))
        elif isinstance(s, ast.For):
            k = self.expr(s.iter, env, qual, guarded)
            self.bind_names(s.target, k, env)
            # twice: a name bound late in the body is visible at its top on the next round
            self.block(s.body, env, qual, guarded)
            self.block(s.body, env, qual, guarded)
            self.block(s.orelse, env, qual, guarded)
        elif isinstance(s, ast.While):
            self.expr(s.test, env, qual, guarded)
            self.block(s.body, env, qual, guarded)
            self.block(s.body, env, qual, guarded)
            self.block(s.orelse, env, qual, guarded)
        elif isinstance(s, ast.If):
            self.expr(s.test, env, qual, guarded)
            g = guarded or self.is_flag(s.test)
            e1, e2 = dict(env), dict(env)
            self.block(s.body, e1, qual, g)
            self.block(s.orelse, e2, qual, guarded)
            for n in set(e1) | set(e2):
                if n in e1 and n in e2:
                    env[n] = join(e1[n], e2[n])
                else:
                    env[n] = e1.get(n, e2.get(n))
        elif isinstance(s, ast.With):
            for it in s.items:
                k = self.expr(it.context_expr, env, qual, guarded)
                if it.optional_vars is not None:
                    self.bind_names(it.optional_vars, k, env)
            self.block(s.body, env, qual, guarded)
        elif isinstance(s, ast.Try):
            self.block(s.body, env, qual, guarded)
            for h in s.handlers:
                if h.name:
                    env[h.name] = 'Fresh'
                self.block(h.body, env, qual, guarded)
            self.block(s.orelse, env, qual, guarded)
            self.block(s.finalbody, env, qual, guarded)
        elif isinstance(s, (ast.Return, ast.Expr)):
            if s.value is not None:
                self.expr(s.value, env, qual, guarded)
        elif isinstance(s, ast.Raise):
            if s.exc is not None:
                self.expr(s.exc, env, qual, guarded)
        elif isinstance(s, ast.Assert):
            self.expr(s.test, env, qual, guarded)
        elif isinstance(s, (ast.Pass, ast.Break, ast.Continue, ast.Import, ast.ImportFrom)):
            pass
        elif isinstance(s, (ast.Global, ast.Nonlocal)):
            for n in s.names:
                env[n] = 'Global'
        else:
            raise Unsupported('%s: statement %s in %s (line %d)' % (self.fname, type(s).__name__, qual, s.lineno))

    def is_flag(self, test):
        return isinstance(test, ast.Name) and test.id == 'inplace'

    def bind_names(self, t, k, env):
        if isinstance(t, ast.Name):
            env[t.id] = k
        elif isinstance(t, (ast.Tuple, ast.List)):
            for e in t.elts:
                self.bind_names(e, k, env)
        elif isinstance(t, ast.Starred):
            self.bind_names(t.value, k, env)
        else:
            raise Unsupported('%s: loop target %s' % (self.fname, type(t).__name__))

    def target(self, t, k, value, env, qual, guarded, line):
        if isinstance(t, ast.Name):
            env[t.id] = k
        elif isinstance(t, (ast.Tuple, ast.List)):
            for e in t.elts:
                self.target(e, k, value, env, qual, guarded, line)
        elif isinstance(t, ast.Starred):
            self.target(t.value, k, value, env, qual, guarded, line)
        elif isinstance(t, ast.Subscript):
            self.expr(t.slice, env, qual, guarded)
            self.site(qual, line, 'setitem', self.expr(t.value, env, qual, guarded), guarded)
        elif isinstance(t, ast.Attribute):
            whose = self.expr(t.value, env, qual, guarded)
            self.site(qual, line, 'setattr ' + t.attr, whose, guarded)
            if t.attr in DICT_ATTRS:
                self.binds.append((qual, line, t.attr.lstrip('_'), self.source(value, env)))
        else:
            raise Unsupported('%s: assignment target %s in %s' % (self.fname, type(t).__name__, qual))

    def site(self, qual, line, what, whose, guarded):
        self.sites.append((qual, line, what, whose, bool(guarded)))

    # ------------------------------------------------------------ dict sources
    def source(self, e, env):
        """what kind of dict expression is being installed as a field"""
        if isinstance(e, (ast.Dict, ast.DictComp)):
            return 'New'
        if isinstance(e, ast.Call):
            f = e.func
            if isinstance(f, ast.Name) and f.id in ('dict', 'OrderedDict'):
                return 'New'
            if isinstance(f, ast.Attribute) and f.attr == 'copy':
                return 'New'
            return 'Call'
        if isinstance(e, ast.IfExp):
            a, b = self.source(e.body, env), self.source(e.orelse, env)
            order = ['New', 'Local', 'Param', 'Call', 'Shared']
            return a if order.index(a) >= order.index(b) else b
        if isinstance(e, ast.Name):
            if e.id in self.params:
                return 'Param'
            return 'Local' if env.get(e.id, 'Global') == 'Fresh' else 'Shared'
        if isinstance(e, ast.Attribute) and e.attr in DICT_ATTRS:
            return 'Shared'
        if isinstance(e, ast.Constant) and e.value is None:
            return 'New'
        return 'Shared'

    # ------------------------------------------------------------ expressions
    def expr(self, e, env, qual, guarded):
        """kind of the object e evaluates to (whose state a write through it would change)"""
        if e is None:
            return 'Fresh'
        if isinstance(e, ast.Name):
            if e.id in env:
                return env[e.id]
            return 'Fresh' if (e.id[:1].isupper() or e.id in FRESH_CALLS or e.id in ('ar', 'functools', 'operator', 'itertools',
                                                                                    'math', 'warnings', 'hashlib', 'pickle',
                                                                                    'DEBUG', 'np', 'sla', 'super')
                               or e.id.startswith('_') and e.id[1:2].islower() and False) else self.global_name(e.id)
        if isinstance(e, ast.Constant):
            return 'Fresh'
        if isinstance(e, ast.Attribute):
            return self.expr(e.value, env, qual, guarded)
        if isinstance(e, ast.Subscript):
            k = self.expr(e.value, env, qual, guarded)
            self.expr(e.slice, env, qual, guarded)
            return k
        if isinstance(e, ast.Slice):
            for x in (e.lower, e.upper, e.step):
                self.expr(x, env, qual, guarded)
            return 'Fresh'
        if isinstance(e, ast.Starred):
            return self.expr(e.value, env, qual, guarded)
        if isinstance(e, ast.IfExp):
            self.expr(e.test, env, qual, guarded)
            a = self.expr(e.body, env, qual, guarded or self.is_flag(e.test))
            b = self.expr(e.orelse, env, qual, guarded)
            if self.is_flag(e.test) and b == 'Fresh' and a in ('Self', 'Operand', 'Guarded'):
                return 'Guarded'
            return join(a, b)
        if isinstance(e, (ast.Tuple, ast.List, ast.Set)):
            for x in e.elts:
                self.expr(x, env, qual, guarded)
            return 'Fresh'
        if isinstance(e, ast.Dict):
            for x in list(e.keys) + list(e.values):
                self.expr(x, env, qual, guarded)
            return 'Fresh'
        if isinstance(e, (ast.ListComp, ast.SetComp, ast.GeneratorExp, ast.DictComp)):
            env2 = dict(env)
            for g in e.generators:
                k = self.expr(g.iter, env2, qual, guarded)
                self.bind_names(g.target, k, env2)
                for c in g.ifs:
                    self.expr(c, env2, qual, guarded)
            if isinstance(e, ast.DictComp):
                self.expr(e.key, env2, qual, guarded)
                self.expr(e.value, env2, qual, guarded)
            else:
                self.expr(e.elt, env2, qual, guarded)
            return 'Fresh'
        if isinstance(e, (ast.BinOp,)):
            self.expr(e.left, env, qual, guarded)
            self.expr(e.right, env, qual, guarded)
            return 'Fresh'
        if isinstance(e, ast.UnaryOp):
            self.expr(e.operand, env, qual, guarded)
            return 'Fresh'
        if isinstance(e, ast.BoolOp):
            k = 'Fresh'
            for x in e.values:
                k = join(k, self.expr(x, env, qual, guarded))
            return k
        if isinstance(e, ast.Compare):
            self.expr(e.left, env, qual, guarded)
            for x in e.comparators:
                self.expr(x, env, qual, guarded)
            return 'Fresh'
        if isinstance(e, ast.Lambda):
            env2 = dict(env)
            for x in e.args.args:
                env2[x.arg] = 'Fresh'
            self.expr(e.body, env2, qual, guarded)
            return 'Fresh'
        if isinstance(e, ast.JoinedStr):
            for x in e.values:
                if isinstance(x, ast.FormattedValue):
                    self.expr(x.value, env, qual, guarded)
            return 'Fresh'
        if isinstance(e, ast.NamedExpr):
            k = self.expr(e.value, env, qual, guarded)
            env[e.target.id] = k
            return k
        if isinstance(e, ast.Call):
            return self.call(e, env, qual, guarded)
        if isinstance(e, (ast.Yield, ast.YieldFrom, ast.Await)):
            return self.expr(e.value, env, qual, guarded)
        raise Unsupported('%s: expression %s in %s (line %d)' % (self.fname, type(e).__name__, qual, getattr(e, 'lineno', 0)))

    def global_name(self, n):
        # module level functions / constants; module level mutable state is written only via `global`
        return 'Fresh' if n not in ('_fuseinfos',) else 'Global'

    def call(self, e, env, qual, guarded):
        line = e.lineno
        f = e.func
        argk = [self.expr(a, env, qual, guarded) for a in e.args]
        kw = {}
        for k in e.keywords:
            kw[k.arg] = k.value
            self.expr(k.value, env, qual, guarded)
        # the in-place flag of this call
        flag = kw.get('inplace')
        flag_true = isinstance(flag, ast.Constant) and flag.value is True
        flag_off = flag is None or (isinstance(flag, ast.Constant) and flag.value is False)
        flag_fwd = (flag is not None) and not flag_true and not flag_off
        # receiver of the call
        name = None
        recv = None
        if isinstance(f, ast.Attribute):
            name = f.attr
            v = f.value
            if isinstance(v, ast.Call) and isinstance(v.func, ast.Name) and v.func.id == 'super':
                recv = self.expr(v.args[1], env, qual, guarded) if len(v.args) == 2 else env.get('self', 'Self')
            elif isinstance(v, ast.Name) and v.id not in env and v.id[:1].isupper() and argk:
                recv = argk[0]          # Class.method(x, ...) : unbound call, receiver is the first argument
            else:
                recv = self.expr(v, env, qual, guarded)
        elif isinstance(f, ast.Name):
            name = f.id
            self.expr(f, env, qual, guarded) if f.id in env else None
        else:
            self.expr(f, env, qual, guarded)
        # --- sites
        if name in OUT_PARAM and isinstance(f, ast.Name):
            i = OUT_PARAM[name]
            if i < len(argk):
                self.site(qual, line, 'call ' + name, argk[i], guarded)
        if name == 'drop_misaligned_sectors' and not flag_off:
            for k in argk[:2]:
                self.site(qual, line, 'call %s(inplace)' % name, k, guarded or flag_fwd)
        if recv is not None:
            if name in MUTATORS and recv != 'Fresh':
                self.site(qual, line, 'call .' + name, recv, guarded)
            if name in DOC_INPLACE:
                self.site(qual, line, 'call .' + name, recv, guarded)
            if not flag_off and name != 'drop_misaligned_sectors':
                self.site(qual, line, 'call .%s(inplace)' % name, recv, guarded or flag_fwd)
            for fld in ('blocks', 'phases'):
                if fld in kw and name in ('modify', 'copy_with'):
                    self.binds.append((qual, line, fld, self.source(kw[fld], env)))
        if isinstance(f, ast.Name) or (isinstance(f, ast.Attribute) and name == '__class__') or \
                (isinstance(f, ast.Attribute) and isinstance(f.value, ast.Name) and f.value.id in ('cls',)):
            pass
        # constructor calls  cls(blocks=..., phases=...) copy their argument (dict(blocks)): recorded as New
        # --- kind of the result
        if recv is not None and not flag_off:
            if flag_true:
                return recv
            return 'Fresh' if recv == 'Fresh' else 'Guarded'
        if name in DOC_INPLACE and recv is not None:
            return recv
        if name in VIEW_CALLS:
            return join(argk[0], 'Fresh') if argk else (recv or 'Fresh')
        if name in ('get', 'items', 'values', 'keys', '__getitem__', 'setdefault', 'pop', 'popitem') and recv is not None:
            return recv
        if isinstance(f, ast.Name) and f.id in env and env[f.id] != 'Fresh':
            return 'Fresh'
        return 'Fresh'


def scan_repo(repo):
    sites, binds, flagged, nfunc = [], [], [], 0
    for fn in FILES:
        path = os.path.join(repo, 'symmray', fn)
        tree = ast.parse(open(path).read())
        sc = Scan(fn)
        mod = fn[:-3]
        for node in tree.body:
            if isinstance(node, ast.FunctionDef):
                sc.function(node, mod + '.' + node.name)
            elif isinstance(node, ast.ClassDef):
                for item in node.body:
                    if isinstance(item, ast.FunctionDef):
                        sc.function(item, mod + '.' + node.name + '.' + item.name)
                    elif isinstance(item, (ast.Assign, ast.Expr, ast.Pass, ast.AnnAssign)):
                        pass
                    else:
                        raise Unsupported('%s: class body item %s in %s' % (fn, type(item).__name__, node.name))
            elif isinstance(node, (ast.Import, ast.ImportFrom, ast.Assign, ast.Expr, ast.Try)):
                # module level code only sets module constants / registers functions
                for c in ast.walk(node):
                    if isinstance(c, ast.Call) and any(k.arg == 'inplace' for k in c.keywords):
                        raise Unsupported('%s: module level call with inplace' % fn)
                    if isinstance(c, (ast.Assign, ast.AugAssign)):
                        ts = c.targets if isinstance(c, ast.Assign) else [c.target]
                        if not all(isinstance(t, ast.Name) for t in ts):
                            raise Unsupported('%s: module level store into an object (line %d)' % (fn, c.lineno))
                    if isinstance(c, (ast.Delete, ast.FunctionDef, ast.ClassDef, ast.For, ast.While)):
                        raise Unsupported('%s: module level %s' % (fn, type(c).__name__))
            else:
                raise Unsupported('%s: module level %s' % (fn, type(node).__name__))
        sites += sc.sites
        binds += sc.binds
        flagged += sc.flagged
        nfunc += sc.funcs
    # the same site can be visited twice (loop bodies are scanned twice): de-duplicate, keep the worst owner
    best = {}
    for (q, l, w, k, g) in sites:
        key = (q, l, w)
        if key not in best or ORDER[k] > ORDER[best[key][0]] or (ORDER[k] == ORDER[best[key][0]] and not g):
            best[key] = (k, g)
    sites = [(q, l, w, k, g) for (q, l, w), (k, g) in sorted(best.items())]
    binds = sorted(set(binds))
    return sites, binds, sorted(set(flagged)), nfunc


def gstr(s):
    return '"%s"' % s.replace('"', "'")


def generate_all(repo):
    sites, binds, flagged, nfunc = scan_repo(repo)
    out = ['(* GENERATED by tr/gen_heap.py from symmray/{block_core,abelian_core,fermionic_core,linalg}.py — do not edit. *)',
           'From Coq Require Import String List.', 'Import ListNotations.', 'Open Scope string_scope.', '',
           '(* whose state a store changes *)',
           'Inductive owner := Fresh | Guarded | Self | Operand | Global.',
           '(* where an installed _blocks / _phases dict comes from *)',
           'Inductive dsource := SNew | SLocal | SParam | SCall | SShared.',
           'Record site := mkSite { s_fn : string; s_line : nat; s_what : string; s_owner : owner; s_guarded : bool }.',
           'Record bind := mkBind { b_fn : string; b_line : nat; b_field : string; b_src : dsource }.', '',
           'Definition functions_scanned : nat := %d.' % nfunc, '',
           'Definition sites : list site := [']
    out.append(';\n'.join('  mkSite %s %d %s %s %s' % (gstr(q), l, gstr(w), k, 'true' if g else 'false')
                          for (q, l, w, k, g) in sites))
    out += ['].', '', 'Definition binds : list bind := [']
    out.append(';\n'.join('  mkBind %s %d %s S%s' % (gstr(q), l, gstr(f), s) for (q, l, f, s) in binds))
    out += ['].', '', 'Definition flag_functions : list string := [']
    out.append(';\n'.join('  ' + gstr(q) for q in flagged))
    out += ['].', '']
    return {'HeapSites.v': '\n'.join(out)}


if __name__ == '__main__':
    repo = sys.argv[1] if len(sys.argv) > 1 else os.environ.get('SYMMRAY_REPO', '/repo')
    print(generate_all(repo)['HeapSites.v'])
