"""Regenerate coq/Gen/LocalOpsData.v from $SYMMRAY_REPO/symmray/fermionic_local_operators.py:
the literal `terms`, `bases`, index maps of the five local-operator builders and the
two charge-map functions, as data (fail-closed: any unexpected shape raises Unsupported)."""
import ast
import os
import sys
from fractions import Fraction

sys.path.insert(0, os.path.dirname(os.path.abspath(__file__)))
from pygallina import Unsupported  # noqa: E402

BUILDERS = ['fermi_hubbard_spinless_local_array', 'fermi_hubbard_local_array',
            'fermi_number_operator_spinless_local_array', 'fermi_number_operator_spinful_local_array',
            'fermi_spin_operator_local_array']
COEF_VARS = ['t', 'V', 'Ua', 'Ub', 'mua', 'mub']        # + c0 c1 = coordinations[0], [1]
SIG = '(t V Ua Ub mua mub c0 c1 : Z)'
SYMS = ['Z2', 'U1', 'Z2Z2', 'U1U1']


def find(tree, name):
    for n in tree.body:
        if isinstance(n, ast.FunctionDef) and n.name == name:
            return n
    raise Unsupported('function %s not found' % name)


def zlit(n):
    return '(%d)' % n


class Builder:
    def __init__(self, f):
        self.f = f
        self.ops = {}        # python variable -> label string
        self.assign = {}     # other simple assignments name -> ast value
        self.unpacked = {}   # x -> p  (from `try: x, y = p / except TypeError: x = y = p`)
        self.ret = None
        self.scan()

    def scan(self):
        for st in self.f.body:
            if isinstance(st, ast.Expr) and isinstance(st.value, ast.Constant) and isinstance(st.value.value, str):
                continue                                   # docstring
            if isinstance(st, ast.Assign) and len(st.targets) == 1:
                tg, v = st.targets[0], st.value
                if isinstance(tg, ast.Tuple) and isinstance(v, ast.Call) and ast.unparse(v.func) == 'map' \
                        and len(v.args) == 2 and ast.unparse(v.args[0]) == 'FermionicOperator' \
                        and isinstance(v.args[1], ast.Constant) and isinstance(v.args[1].value, str) \
                        and len(v.args[1].value) == len(tg.elts) and all(isinstance(e, ast.Name) for e in tg.elts):
                    for e, ch in zip(tg.elts, v.args[1].value):
                        self.ops[e.id] = ch
                    continue
                if isinstance(tg, ast.Name) and isinstance(v, ast.Call) and ast.unparse(v.func) == 'FermionicOperator' \
                        and len(v.args) == 1 and not v.keywords and isinstance(v.args[0], ast.Constant) \
                        and isinstance(v.args[0].value, str):
                    self.ops[tg.id] = v.args[0].value
                    continue
                if isinstance(tg, ast.Name):
                    if tg.id in self.assign:
                        raise Unsupported('%s: %s assigned twice' % (self.f.name, tg.id))
                    self.assign[tg.id] = v
                    continue
                raise Unsupported('%s: assignment %s' % (self.f.name, ast.unparse(st)))
            if isinstance(st, ast.Try):
                self.scan_try(st)
                continue
            if isinstance(st, ast.Return):
                if self.ret is not None:
                    raise Unsupported('%s: two returns' % self.f.name)
                self.ret = st.value
                continue
            raise Unsupported('%s: statement %s' % (self.f.name, type(st).__name__))
        if self.ret is None:
            raise Unsupported('%s: no return' % self.f.name)

    def scan_try(self, st):
        ok = (len(st.body) == 1 and isinstance(st.body[0], ast.Assign) and len(st.handlers) == 1
              and not st.orelse and not st.finalbody)
        if ok:
            a = st.body[0]
            h = st.handlers[0]
            ok = (isinstance(a.targets[0], ast.Tuple) and len(a.targets[0].elts) == 2 and isinstance(a.value, ast.Name)
                  and ast.unparse(h.type) == 'TypeError' and len(h.body) == 1 and isinstance(h.body[0], ast.Assign)
                  and len(h.body[0].targets) == 2 and isinstance(h.body[0].value, ast.Name)
                  and h.body[0].value.id == a.value.id
                  and [ast.unparse(x) for x in h.body[0].targets] == [ast.unparse(x) for x in a.targets[0].elts])
        if not ok:
            raise Unsupported('%s: try block %s' % (self.f.name, ast.unparse(st)[:80]))
        for e in st.body[0].targets[0].elts:
            self.unpacked[e.id] = st.body[0].value.id

    # ---- coefficient: (num, den) as Gallina Z expressions
    def coef(self, e):
        if isinstance(e, ast.Constant) and isinstance(e.value, (int, float)) and not isinstance(e.value, bool):
            fr = Fraction(e.value)
            return zlit(fr.numerator), zlit(fr.denominator)
        if isinstance(e, ast.UnaryOp) and isinstance(e.op, ast.USub):
            n, d = self.coef(e.operand)
            return '(- %s)' % n, d
        if isinstance(e, ast.Name):
            v = e.id
            if v in ('t', 'V') and v in [a.arg for a in self.f.args.args]:
                return v, '1'
            if v in self.unpacked and v in COEF_VARS:
                if (v[:-1], self.unpacked[v]) not in (('U', 'U'), ('mu', 'mu')) or v[-1] not in 'ab':
                    raise Unsupported('%s: %s unpacked from %s' % (self.f.name, v, self.unpacked[v]))
                return v, '1'
            raise Unsupported('%s: coefficient variable %s' % (self.f.name, v))
        if isinstance(e, ast.BinOp) and isinstance(e.op, ast.Div):
            n, d = self.coef(e.left)
            r = e.right
            if d == '1' and isinstance(r, ast.Subscript) and ast.unparse(r.value) == 'coordinations' \
                    and isinstance(r.slice, ast.Constant) and r.slice.value in (0, 1):
                return n, 'c%d' % r.slice.value
        raise Unsupported('%s: coefficient %s' % (self.f.name, ast.unparse(e)))

    def op(self, e, rank):
        if isinstance(e, ast.Name) and e.id in self.ops:
            return '(mkop %d%%nat false)' % rank[self.ops[e.id]]
        if isinstance(e, ast.Attribute) and e.attr == 'dag' and isinstance(e.value, ast.Name) and e.value.id in self.ops:
            return '(mkop %d%%nat true)' % rank[self.ops[e.value.id]]
        raise Unsupported('%s: operator %s' % (self.f.name, ast.unparse(e)))

    def seq(self, e, what):
        if isinstance(e, (ast.Tuple, ast.List)):
            return e.elts
        raise Unsupported('%s: %s is not a literal tuple/list: %s' % (self.f.name, what, ast.unparse(e)[:60]))

    def resolve(self, e):
        if isinstance(e, ast.Name) and e.id in self.assign:
            return self.assign[e.id]
        return e

    def emit(self):
        name = self.f.name
        rank = {l: i for i, l in enumerate(sorted(set(self.ops.values())))}
        if len(rank) != len(self.ops):
            raise Unsupported('%s: two operator variables share a label' % name)
        if 'terms' not in self.assign or 'bases' not in self.assign:
            raise Unsupported('%s: terms / bases not assigned' % name)
        terms = []
        for el in self.seq(self.assign['terms'], 'terms'):
            pr = self.seq(el, 'term')
            if len(pr) != 2:
                raise Unsupported('%s: term %s' % (name, ast.unparse(el)))
            n, d = self.coef(pr[0])
            ops = [self.op(o, rank) for o in self.seq(pr[1], 'operator string')]
            terms.append('(%s, %s, [%s])' % (n, d, '; '.join(ops)))
        bases = []
        for b in self.seq(self.assign['bases'], 'bases'):
            states = []
            for st in self.seq(self.resolve(b), 'basis'):
                states.append('[%s]' % '; '.join(self.op(o, rank) for o in self.seq(st, 'state')))
            bases.append('[%s]' % '; '.join(states))
        # return build_local_fermionic_array(terms, bases, symmetry, index_maps=[indexmap]*n, like=like)
        r = self.ret
        if not (isinstance(r, ast.Call) and ast.unparse(r.func) == 'build_local_fermionic_array'
                and [ast.unparse(a) for a in r.args] == ['terms', 'bases', 'symmetry']
                and sorted(k.arg for k in r.keywords) == ['index_maps', 'like']):
            raise Unsupported('%s: return %s' % (name, ast.unparse(r)[:80]))
        im = [k.value for k in r.keywords if k.arg == 'index_maps'][0]
        ims = self.seq(im, 'index_maps')
        if len(ims) != len(bases) or any(ast.unparse(x) != 'indexmap' for x in ims):
            raise Unsupported('%s: index_maps %s' % (name, ast.unparse(im)))
        src = self.assign.get('indexmap')
        if src is None or not (isinstance(src, ast.Call) and ast.unparse(src.args[0]) == 'symmetry' and len(src.args) == 1
                               and ast.unparse(src.func) in ('get_spinless_charge_indexmap', 'get_spinful_charge_indexmap')):
            raise Unsupported('%s: indexmap source' % name)
        extra = set(self.assign) - {'terms', 'bases', 'indexmap'} - {ast.unparse(b) for b in self.seq(self.assign['bases'], 'bases')}
        if extra:
            raise Unsupported('%s: unexpected assignments %s' % (name, sorted(extra)))
        kind = 'spinless' if 'spinless' in ast.unparse(src.func) else 'spinful'
        short = name[:-len('_local_array')]
        labels = '[%s]' % '; '.join('[%s]' % '; '.join(zlit(ord(ch)) for ch in l) for l in sorted(rank, key=rank.get))
        out = ['(* %s *)' % name,
               'Definition %s_labels : list (list Z) := %s.   (* code points of %s, in rank order *)'
               % (short, labels, ', '.join(repr(l) for l in sorted(rank, key=rank.get))),
               'Definition %s_terms %s : list qterm :=\n  [%s].' % (short, SIG, ';\n   '.join(terms)),
               'Definition %s_bases : list site_basis :=\n  [%s].' % (short, ';\n   '.join(bases)),
               'Definition %s_indexmap := %s_indexmap.' % (short, kind), '']
        return short, kind, '\n'.join(out)


def charge_lit(e):
    if isinstance(e, ast.Constant) and isinstance(e.value, int) and not isinstance(e.value, bool):
        return '[%s]' % zlit(e.value)
    if isinstance(e, ast.Tuple) and all(isinstance(x, ast.Constant) and isinstance(x.value, int) for x in e.elts):
        return '[%s]' % '; '.join(zlit(x.value) for x in e.elts)
    raise Unsupported('charge %s' % ast.unparse(e))


def indexmap_fn(f):
    """if-chain on `symmetry` returning literal lists  ->  {symmetry name: Gallina list (list Z)}"""
    body = [s for s in f.body if not (isinstance(s, ast.Expr) and isinstance(s.value, ast.Constant))]
    if len(body) != 1 or not isinstance(body[0], ast.If):
        raise Unsupported('%s: body shape' % f.name)
    res = {}
    cur = body[0]
    while True:
        t = cur.test
        if isinstance(t, ast.Compare) and len(t.ops) == 1 and ast.unparse(t.left) == 'symmetry':
            c = t.comparators[0]
            if isinstance(t.ops[0], ast.Eq) and isinstance(c, ast.Constant) and isinstance(c.value, str):
                names = [c.value]
            elif isinstance(t.ops[0], ast.In) and isinstance(c, ast.Tuple) and all(
                    isinstance(x, ast.Constant) and isinstance(x.value, str) for x in c.elts):
                names = [x.value for x in c.elts]
            else:
                raise Unsupported('%s: test %s' % (f.name, ast.unparse(t)))
        else:
            raise Unsupported('%s: test %s' % (f.name, ast.unparse(t)))
        if not (len(cur.body) == 1 and isinstance(cur.body[0], ast.Return) and isinstance(cur.body[0].value, ast.List)):
            raise Unsupported('%s: branch body' % f.name)
        lit = '[%s]' % '; '.join(charge_lit(e) for e in cur.body[0].value.elts)
        for n in names:
            if n in res or n not in SYMS:
                raise Unsupported('%s: symmetry %s' % (f.name, n))
            res[n] = lit
        if len(cur.orelse) == 1 and isinstance(cur.orelse[0], ast.If):
            cur = cur.orelse[0]
        elif len(cur.orelse) == 1 and isinstance(cur.orelse[0], ast.Raise):
            break
        else:
            raise Unsupported('%s: else branch' % f.name)
    return res


def generate(repo):
    src = open(os.path.join(repo, 'symmray', 'fermionic_local_operators.py')).read()
    tree = ast.parse(src)
    out = ['(* GENERATED by tr/gen_localops.py from symmray/fermionic_local_operators.py — do not edit. *)',
           'From SV Require Import Base.Prelude Model.LocalOps.', 'Open Scope Z_scope.', '']
    maps = {}
    for kind in ('spinless', 'spinful'):
        m = indexmap_fn(find(tree, 'get_%s_charge_indexmap' % kind))
        maps[kind] = m
        out.append('(* get_%s_charge_indexmap: (symmetry index in [Z2; U1; Z2Z2; U1U1], map); a charge is its list of components *)' % kind)
        out.append('Definition %s_indexmap : list (Z * list (list Z)) :=\n  [%s].' % (
            kind, ';\n   '.join('(%d, %s)' % (SYMS.index(s), m[s]) for s in SYMS if s in m)))
        out.append('')
    shorts = []
    for b in BUILDERS:
        short, kind, text = Builder(find(tree, b)).emit()
        shorts.append(short)
        out.append(text)
    out.append('Definition all_builder_maps : list (list (Z * list (list Z)) * list site_basis) :=\n  [%s].' % ';\n   '.join(
        '(%s_indexmap, %s_bases)' % (s, s) for s in shorts))
    # build_local_fermionic_array: duals and index_maps
    f = find(tree, 'build_local_fermionic_array')
    txt = ast.unparse(f)
    if 'duals = [False] * len(bases) + [True] * len(bases)' not in txt or 'index_maps=index_maps * 2' not in txt \
            or 'fermionic=True' not in txt:
        raise Unsupported('build_local_fermionic_array: duals / index_maps / fermionic shape changed')
    out.append('')
    out.append('(* build_local_fermionic_array: duals = [False]*n + [True]*n, index_maps * 2, fermionic=True (shape checked by the translator) *)')
    out.append('Definition array_duals (n : nat) : list bool := repeat false n ++ repeat true n.')
    return '\n'.join(out) + '\n'


def generate_all(repo):
    return {'LocalOpsData.v': generate(repo)}


if __name__ == '__main__':
    print(generate(os.environ.get('SYMMRAY_REPO', '/repo')))
