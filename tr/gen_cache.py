"""Regenerate coq/Gen/CacheKey.v and coq/Gen/ModeCtx.v from
$SYMMRAY_REPO/symmray/*.py (AST based, fail-closed).

CacheKey.v
  * fuse_key_components / index_key_components / subinfo_key_components:
    the elements of the tuples hashed in `cached_fuse_block_info`,
    `BlockIndex.hashkey`, `SubIndexInfo.hashkey`, as tags;
  * fuse_reads: what `calc_fuse_block_info` reads of its arguments;
  * fuse_cache_policy / eviction_tolerant: the shape of the LRU script;
  * attr_sites: every assignment to `_chargemap/_dual/_subinfo/_hashkey/
    _indices/_extents` in the package;  table_mutations: every in-place
    mutation of an index table (expected: none);
  * lru_helpers: every `functools.lru_cache`d function with a purity scan.
ModeCtx.v
  * default_tensordot_mode / set_default_tensordot_mode /
    get_default_tensordot_mode as terms of Model.Cache.stmt.
"""
import ast
import glob
import os
import sys

sys.path.insert(0, os.path.dirname(os.path.abspath(__file__)))
from pygallina import Unsupported  # noqa: E402

ATTRS = {'_chargemap': 'A_chargemap', '_dual': 'A_dual', '_subinfo': 'A_subinfo', '_hashkey': 'A_hashkey',
         '_indices': 'A_indices', '_extents': 'A_extents'}
TABLE_ATTRS = {'chargemap', '_chargemap', 'extents', '_extents', '_indices', 'indices_sub'}
MUTATORS = {'update', 'pop', 'popitem', 'clear', 'setdefault', 'append', 'extend', 'insert', 'remove', 'sort',
            'reverse', '__setitem__', '__delitem__', 'move_to_end'}


def gstr(s):
    if '"' in s:
        raise Unsupported('string literal with a quote: %r' % s)
    return '"%s"%%string' % s


def glist(xs):
    return '[' + '; '.join(xs) + ']'


def dump(node):
    # structural text of a node; Load/Store/Del contexts are not distinguished
    return ast.dump(node, annotate_fields=False, include_attributes=False).replace('Store()', 'Load()').replace('Del()', 'Load()')


def expr(src):
    return dump(ast.parse(src, mode='eval').body)


def modules(repo):
    out = {}
    for f in sorted(glob.glob(os.path.join(repo, 'symmray', '*.py'))):
        out[os.path.basename(f)[:-3]] = ast.parse(open(f).read())
    if 'abelian_core' not in out:
        raise Unsupported('symmray/abelian_core.py not found')
    return out


def functions(tree):
    """(qualname, FunctionDef) for every function and method, nested included"""
    out = []

    def walk(body, prefix):
        for n in body:
            if isinstance(n, (ast.FunctionDef, ast.AsyncFunctionDef)):
                out.append((prefix + n.name, n))
                walk(n.body, prefix + n.name + '.')
            elif isinstance(n, ast.ClassDef):
                walk(n.body, prefix + n.name + '.')
            elif isinstance(n, (ast.If, ast.Try, ast.With, ast.For, ast.While)):
                for fld in ('body', 'orelse', 'finalbody'):
                    walk(getattr(n, fld, []) or [], prefix)
                for h in getattr(n, 'handlers', []) or []:
                    walk(h.body, prefix)
    walk(tree.body, '')
    return out


def find_fn(tree, qual):
    for q, f in functions(tree):
        if q == qual:
            return f
    raise Unsupported('function %s not found' % qual)


def strip_doc(body):
    if body and isinstance(body[0], ast.Expr) and isinstance(body[0].value, ast.Constant) \
            and isinstance(body[0].value.value, str):
        return body[1:]
    return body


# ------------------------------------------------------------------ key components
def hashed_tuple(fn, target=None):
    """the tuple literal passed to hasher(...) in `fn`"""
    found = []
    for n in ast.walk(fn):
        if isinstance(n, ast.Call) and isinstance(n.func, ast.Name) and n.func.id == 'hasher':
            found.append(n)
    if len(found) != 1:
        raise Unsupported('%s: expected exactly one hasher(...) call, found %d' % (fn.name, len(found)))
    c = found[0]
    if len(c.args) != 1 or c.keywords or not isinstance(c.args[0], ast.Tuple):
        raise Unsupported('%s: hasher argument is not a tuple literal' % fn.name)
    return c.args[0].elts


def check_hasher(tree):
    f = find_fn(tree, 'hasher')
    body = strip_doc(f.body)
    if not (len(body) == 1 and isinstance(body[0], ast.Return)
            and dump(body[0].value) == expr('hashlib.sha1(pickle.dumps(k)).hexdigest()')
            and [a.arg for a in f.args.args] == ['k']):
        raise Unsupported('hasher is no longer sha1(pickle.dumps(k)).hexdigest()')


def fuse_components(fn):
    if [a.arg for a in fn.args.args] != ['self', 'axes_groups']:
        raise Unsupported('cached_fuse_block_info parameters')
    table = {
        expr('tuple(ix.hashkey() for ix in self.indices)'): 'KIndexHashkeys',
        expr('tuple(self.blocks)'): 'KSectors',
        expr('tuple(self.blocks.keys())'): 'KSectors',
        expr('tuple(self.sectors)'): 'KSectors',
        expr('self.symmetry'): 'KSymmetry',
        expr('axes_groups'): 'KAxesGroups',
    }
    out = []
    for e in hashed_tuple(fn):
        t = table.get(dump(e))
        if t is None:
            raise Unsupported('cached_fuse_block_info: unknown key component %s' % ast.unparse(e))
        out.append(t)
    return out


def index_components(fn):
    table = {
        expr('tuple(self._chargemap.items())'): 'KChargemapItems',
        expr('self._dual'): 'KDual',
        expr('self._subinfo.hashkey() if self._subinfo else None'): 'KSubinfoHashkey',
        expr('self._subinfo.hashkey() if self._subinfo is not None else None'): 'KSubinfoHashkey',
        expr('None if self._subinfo is None else self._subinfo.hashkey()'): 'KSubinfoHashkey',
    }
    out = []
    for e in hashed_tuple(fn):
        t = table.get(dump(e))
        if t is None:
            raise Unsupported('BlockIndex.hashkey: unknown key component %s' % ast.unparse(e))
        out.append(t)
    return out


def subinfo_components(fn):
    table = {
        expr('tuple(ix.hashkey for ix in self._indices)'): 'KSubIndexBoundMethods',
        expr('tuple(ix.hashkey() for ix in self._indices)'): 'KSubIndexHashkeys',
        expr('tuple((c, tuple(extent.items())) for c, extent in self._extents.items())'): 'KExtentsItems',
    }
    out = []
    for e in hashed_tuple(fn):
        t = table.get(dump(e))
        if t is None:
            raise Unsupported('SubIndexInfo.hashkey: unknown key component %s' % ast.unparse(e))
        out.append(t)
    return out


def check_memo_shape(fn, owner):
    """if getattr(self, "_hashkey", None) is None: self._hashkey = hasher(...);  return self._hashkey"""
    body = strip_doc(fn.body)
    ok = (len(body) == 2 and isinstance(body[0], ast.If) and not body[0].orelse
          and dump(body[0].test) in (expr('getattr(self, "_hashkey", None) is None'), expr('self._hashkey is None'))
          and len(body[0].body) == 1 and isinstance(body[0].body[0], ast.Assign)
          and dump(body[0].body[0].targets[0]) == expr('self._hashkey')
          and isinstance(body[1], ast.Return) and dump(body[1].value) == expr('self._hashkey'))
    if not ok:
        raise Unsupported('%s.hashkey is not the memoised shape' % owner)


def fuse_reads(fn):
    """what calc_fuse_block_info reads of (self, axes_groups)"""
    if [a.arg for a in fn.args.args] != ['self', 'axes_groups']:
        raise Unsupported('calc_fuse_block_info parameters')
    amap = {'duals': 'KIndexHashkeys', 'indices': 'KIndexHashkeys', 'blocks': 'KSectors', 'sectors': 'KSectors',
            'symmetry': 'KSymmetry'}
    reads = []
    for n in ast.walk(fn):
        if isinstance(n, ast.Attribute) and isinstance(n.value, ast.Name) and n.value.id == 'self':
            if n.attr not in amap:
                raise Unsupported('calc_fuse_block_info reads self.%s, which no key component covers' % n.attr)
            if not isinstance(n.ctx, ast.Load):
                raise Unsupported('calc_fuse_block_info writes self.%s' % n.attr)
            if amap[n.attr] not in reads:
                reads.append(amap[n.attr])
        elif isinstance(n, ast.Name) and n.id == 'self':
            pass
        elif isinstance(n, ast.Name) and n.id == 'axes_groups' and 'KAxesGroups' not in reads:
            reads.append('KAxesGroups')
    # a bare `self` (passed on whole) would defeat the scan
    class V(ast.NodeVisitor):
        def visit_Attribute(self, node):
            if isinstance(node.value, ast.Name) and node.value.id == 'self':
                return
            self.generic_visit(node)

        def visit_Name(self, node):
            if node.id == 'self':
                raise Unsupported('calc_fuse_block_info passes `self` on as a whole')
    for s in fn.body:
        V().visit(s)
    return reads


# ------------------------------------------------------------------ the LRU script
def cache_script(fn):
    body = strip_doc(fn.body)
    calc = expr('calc_fuse_block_info(self, axes_groups)')

    def is_bypass(s, test_ok):
        if not (isinstance(s, ast.If) and not s.orelse and dump(s.test) in test_ok):
            return False
        inner = [x for x in s.body if not isinstance(x, (ast.Global, ast.AugAssign))]
        return len(inner) == 1 and isinstance(inner[0], ast.Return) and dump(inner[0].value) == calc
    if len(body) != 5:
        raise Unsupported('cached_fuse_block_info: expected 5 statements, got %d' % len(body))
    if not is_bypass(body[0], (expr('_fuseinfo_cache_maxsize == 0'),)):
        raise Unsupported('cached_fuse_block_info: maxsize == 0 bypass')
    if not is_bypass(body[1], (expr('len(self.blocks) > _fuseinfo_cache_maxsectors'),)):
        raise Unsupported('cached_fuse_block_info: oversize bypass')
    k = body[2]
    if not (isinstance(k, ast.Assign) and dump(k.targets[0]) == expr('key') and isinstance(k.value, ast.Call)
            and dump(k.value.func) == expr('hasher')):
        raise Unsupported('cached_fuse_block_info: key = hasher(...)')
    t = body[3]
    if not (isinstance(t, ast.Try) and not t.orelse and not t.finalbody and len(t.handlers) == 1
            and t.handlers[0].type is not None and dump(t.handlers[0].type) == expr('KeyError')):
        raise Unsupported('cached_fuse_block_info: try/except KeyError')
    hit = [x for x in t.body if not isinstance(x, (ast.Global, ast.AugAssign))]
    if not (hit and isinstance(hit[0], ast.Assign) and dump(hit[0].targets[0]) == expr('res')
            and dump(hit[0].value) == expr('_fuseinfos[key]')):
        raise Unsupported('cached_fuse_block_info: hit path lookup')
    move = False
    for x in hit[1:]:
        if isinstance(x, ast.Expr) and dump(x.value) == expr('_fuseinfos.move_to_end(key)'):
            move = True
        else:
            raise Unsupported('cached_fuse_block_info: hit path statement %s' % ast.unparse(x))
    miss = [x for x in t.handlers[0].body if not isinstance(x, (ast.Global, ast.AugAssign))]
    if not (len(miss) == 2 and isinstance(miss[0], ast.Assign) and len(miss[0].targets) == 2
            and dump(miss[0].targets[0]) == expr('res') and dump(miss[0].targets[1]) == expr('_fuseinfos[key]')
            and dump(miss[0].value) == calc):
        raise Unsupported('cached_fuse_block_info: miss path insert')
    ev = miss[1]
    if not (isinstance(ev, ast.If) and not ev.orelse and len(ev.body) == 1
            and dump(ev.test) == expr('len(_fuseinfos) > _fuseinfo_cache_maxsize')):
        raise Unsupported('cached_fuse_block_info: eviction test')
    pop = ev.body[0]
    tolerant = False
    if isinstance(pop, ast.Try):
        h = pop.handlers
        if not (len(pop.body) == 1 and not pop.orelse and not pop.finalbody and len(h) == 1 and h[0].type is not None
                and dump(h[0].type) == expr('KeyError') and len(h[0].body) == 1 and isinstance(h[0].body[0], ast.Pass)):
            raise Unsupported('cached_fuse_block_info: eviction try shape')
        tolerant = True
        pop = pop.body[0]
    elif isinstance(pop, ast.If) and not pop.orelse and len(pop.body) == 1 and dump(pop.test) == expr('_fuseinfos'):
        # `if _fuseinfos: popitem` is NOT atomic with the pop: still racy
        pop = pop.body[0]
    if not (isinstance(pop, ast.Expr) and isinstance(pop.value, ast.Call)
            and dump(pop.value.func) == expr('_fuseinfos.popitem') and not pop.value.args):
        raise Unsupported('cached_fuse_block_info: popitem call')
    last = True
    for kw in pop.value.keywords:
        if kw.arg == 'last' and isinstance(kw.value, ast.Constant) and isinstance(kw.value.value, bool):
            last = kw.value.value
        else:
            raise Unsupported('cached_fuse_block_info: popitem keyword')
    if not (isinstance(body[4], ast.Return) and dump(body[4].value) == expr('res')):
        raise Unsupported('cached_fuse_block_info: return res')
    return move, (not last), tolerant


# ------------------------------------------------------------------ attribute sites
def keyed_classes(mods):
    """classes carrying a `_hashkey` slot (or inheriting from one that does)"""
    keyed, bases = set(), {}
    for tree in mods.values():
        for n in ast.walk(tree):
            if isinstance(n, ast.ClassDef):
                bases[n.name] = [b.id if isinstance(b, ast.Name) else getattr(b, 'attr', '?') for b in n.bases]
                for st in n.body:
                    if isinstance(st, ast.Assign) and dump(st.targets[0]) == expr('__slots__'):
                        if any(isinstance(c, ast.Constant) and c.value == '_hashkey' for c in ast.walk(st.value)):
                            keyed.add(n.name)
    changed = True
    while changed:
        changed = False
        for c, bs in bases.items():
            if c not in keyed and any(b in keyed for b in bs):
                keyed.add(c)
                changed = True
    if not keyed:
        raise Unsupported('no class with a _hashkey slot')
    return keyed


def own_object(f, cls, name):
    """inside a method of class `cls`: is `name` certainly an instance of cls?"""
    if f.args.args and name == f.args.args[0].arg and name == 'self':
        return True
    ok = None
    for n in ast.walk(f):
        if isinstance(n, ast.Assign) and any(isinstance(t, ast.Name) and t.id == name for t in n.targets):
            good = dump(n.value) in (expr('self.__new__(self.__class__)'), expr('%s.__new__(%s)' % (cls, cls)),
                                     expr('object.__new__(self.__class__)'))
            ok = good if ok is None else (ok and good)
    return bool(ok)


def attr_sites(mods):
    sites, muts = [], []
    keyed = keyed_classes(mods)
    for mname, tree in mods.items():
        fns = functions(tree)
        cls_of = {}
        for c in ast.walk(tree):
            if isinstance(c, ast.ClassDef):
                for st in c.body:
                    if isinstance(st, (ast.FunctionDef, ast.AsyncFunctionDef)):
                        for n in ast.walk(st):
                            cls_of[id(n)] = (c.name, st)
        # innermost enclosing function of each node
        inner = {}
        for q, f in fns:
            for n in ast.walk(f):
                inner[id(n)] = (q, f)
        for n in ast.walk(tree):
            q = inner.get(id(n), ('<module>', None))[0]
            where = '%s.%s' % (mname, q)
            tgts = []
            if isinstance(n, ast.Assign):
                for t in n.targets:
                    tgts += list(t.elts) if isinstance(t, (ast.Tuple, ast.List)) else [t]
                val = n.value
            elif isinstance(n, (ast.AugAssign, ast.AnnAssign)):
                tgts, val = [n.target], n.value
            elif isinstance(n, ast.Delete):
                tgts, val = list(n.targets), None
            else:
                tgts, val = [], None
            for t in tgts:
                if isinstance(t, ast.Attribute) and t.attr in ATTRS:
                    if not isinstance(t.value, ast.Name):
                        raise Unsupported('%s: %s assigned on a non-name object' % (where, t.attr))
                    kind = 'ROther'
                    if t.attr == '_hashkey' and isinstance(n, ast.Assign):
                        if isinstance(val, ast.Constant) and val.value is None:
                            kind = 'RNone'
                        elif q.endswith('.hashkey') and isinstance(val, ast.Call) and dump(val.func) == expr('hasher'):
                            kind = 'RMemoFill'
                    if isinstance(n, ast.Delete):
                        kind = 'ROther'
                        if t.attr != '_hashkey':
                            muts.append('%s: del %s' % (where, ast.unparse(t)))
                    c = cls_of.get(id(n))
                    if c is not None and c[0] not in keyed and own_object(c[1], c[0], t.value.id):
                        continue      # same-named private attribute of an unrelated class (e.g. AbelianArray._indices)
                    sites.append((where, t.value.id, ATTRS[t.attr], kind))
                # in-place mutation of a table: x.chargemap[c] = ..., del x._extents[c], x._chargemap[c] += 1
                base = t
                through = False
                while isinstance(base, (ast.Subscript, ast.Attribute)):
                    if isinstance(base, ast.Subscript):
                        through = True
                        base = base.value
                    else:
                        if through and base.attr in TABLE_ATTRS:
                            muts.append('%s: %s' % (where, ast.unparse(t)))
                            break
                        base = base.value
            if isinstance(n, ast.Call):
                fn = n.func
                if isinstance(fn, ast.Name) and fn.id in ('setattr', 'delattr') and len(n.args) >= 2:
                    a = n.args[1]
                    if not isinstance(a, ast.Constant) or a.value in ATTRS:
                        raise Unsupported('%s: %s with a dynamic or tracked attribute name' % (where, fn.id))
                if isinstance(fn, ast.Attribute) and fn.attr in ('__setattr__', '__delattr__'):
                    raise Unsupported('%s: explicit %s call' % (where, fn.attr))
                if isinstance(fn, ast.Attribute) and fn.attr in MUTATORS:
                    b = fn.value
                    while isinstance(b, ast.Subscript):
                        b = b.value
                    if isinstance(b, ast.Attribute) and b.attr in TABLE_ATTRS:
                        muts.append('%s: %s' % (where, ast.unparse(n)))
    return sites, muts


# ------------------------------------------------------------------ lru_cache helpers
def is_lru(dec):
    d = dec.func if isinstance(dec, ast.Call) else dec
    return (isinstance(d, ast.Attribute) and d.attr in ('lru_cache', 'cache')) or \
           (isinstance(d, ast.Name) and d.id in ('lru_cache', 'cache'))


def module_variables(tree):
    """names bound by assignment at module level (not defs / classes / imports)"""
    out = set()

    def walk(body):
        for n in body:
            if isinstance(n, ast.Assign):
                for t in n.targets:
                    for x in ast.walk(t):
                        if isinstance(x, ast.Name):
                            out.add(x.id)
            elif isinstance(n, (ast.AugAssign, ast.AnnAssign)) and isinstance(n.target, ast.Name):
                out.add(n.target.id)
            elif isinstance(n, (ast.If, ast.Try, ast.With, ast.For, ast.While)):
                for fld in ('body', 'orelse', 'finalbody'):
                    walk(getattr(n, fld, []) or [])
                for h in getattr(n, 'handlers', []) or []:
                    walk(h.body)
    walk(tree.body)
    return out


def lru_helpers(mods):
    out = []
    for mname, tree in mods.items():
        mvars = module_variables(tree)
        for q, f in functions(tree):
            if not any(is_lru(d) for d in f.decorator_list):
                continue
            a = f.args
            if a.vararg or a.kwarg or a.kwonlyargs or a.posonlyargs:
                raise Unsupported('%s.%s: unsupported parameter kinds' % (mname, q))
            params = [x.arg for x in a.args]
            gw, am = [], []
            local = set(params)
            for n in ast.walk(f):
                if isinstance(n, ast.Name) and isinstance(n.ctx, ast.Store):
                    local.add(n.id)
            for n in ast.walk(f):
                if isinstance(n, (ast.Global, ast.Nonlocal)):
                    gw += ['global ' + x for x in n.names]
                elif isinstance(n, ast.Name) and isinstance(n.ctx, ast.Load) and n.id in mvars and n.id not in local:
                    gw.append('reads ' + n.id)      # a module variable: the result would depend on history
                elif isinstance(n, (ast.Assign, ast.AugAssign, ast.Delete)):
                    tg = n.targets if isinstance(n, (ast.Assign, ast.Delete)) else [n.target]
                    for t in tg:
                        b = t
                        while isinstance(b, (ast.Subscript, ast.Attribute)):
                            b = b.value
                        if b is not t and isinstance(b, ast.Name) and b.id in params:
                            am.append(ast.unparse(t))
                elif isinstance(n, ast.Call) and isinstance(n.func, ast.Attribute) and n.func.attr in MUTATORS:
                    b = n.func.value
                    while isinstance(b, (ast.Subscript, ast.Attribute)):
                        b = b.value
                    if isinstance(b, ast.Name) and b.id in params:
                        am.append(ast.unparse(n))
                elif isinstance(n, (ast.Yield, ast.YieldFrom, ast.Await)):
                    gw.append('generator')
            out.append(('%s.%s' % (mname, q), params, sorted(set(gw)), sorted(set(am))))
    if not out:
        raise Unsupported('no lru_cache helper found')
    return out


# ------------------------------------------------------------------ statement language
def tr_expr(e):
    if isinstance(e, ast.Name):
        return '(EName %s)' % gstr(e.id)
    if isinstance(e, ast.Constant) and e.value is None:
        return 'ENone'
    if isinstance(e, ast.Compare) and len(e.ops) == 1:
        a, b = tr_expr(e.left), tr_expr(e.comparators[0])
        if isinstance(e.ops[0], ast.IsNot):
            return '(EIsNot %s %s)' % (a, b)
        if isinstance(e.ops[0], ast.Is):
            return '(EIs %s %s)' % (a, b)
    raise Unsupported('mode functions: expression %s' % ast.unparse(e))


def tr_block(stmts):
    stmts = strip_doc(list(stmts))
    if not stmts:
        return 'Pass'
    ts = [tr_stmt(s) for s in stmts]
    out = ts[-1]
    for t in reversed(ts[:-1]):
        out = '(Seq %s %s)' % (t, out)
    return out


def tr_stmt(s):
    if isinstance(s, ast.Global):
        out = ['(Global %s)' % gstr(n) for n in s.names]
        r = out[-1]
        for t in reversed(out[:-1]):
            r = '(Seq %s %s)' % (t, r)
        return r
    if isinstance(s, ast.Assign) and len(s.targets) == 1 and isinstance(s.targets[0], ast.Name):
        return '(Assign %s %s)' % (gstr(s.targets[0].id), tr_expr(s.value))
    if isinstance(s, ast.Expr) and isinstance(s.value, ast.Yield) and s.value.value is None:
        return 'Yield'
    if isinstance(s, ast.Pass):
        return 'Pass'
    if isinstance(s, ast.Return) and s.value is not None:
        return '(Return %s)' % tr_expr(s.value)
    if isinstance(s, ast.If):
        return '(If %s %s %s)' % (tr_expr(s.test), tr_block(s.body), tr_block(s.orelse))
    if isinstance(s, ast.Try) and not s.handlers and not s.orelse and s.finalbody:
        return '(TryFinally %s %s)' % (tr_block(s.body), tr_block(s.finalbody))
    raise Unsupported('mode functions: statement %s' % ast.unparse(s).split('\n')[0])


def fundef(f):
    a = f.args
    if a.vararg or a.kwarg or a.kwonlyargs or a.posonlyargs or a.defaults:
        raise Unsupported('%s: parameter kinds' % f.name)
    return '{| params := %s; fbody := %s |}' % (glist([gstr(x.arg) for x in a.args]), tr_block(f.body))


def mode_ctx(tree):
    cm = find_fn(tree, 'default_tensordot_mode')
    decs = [dump(d) for d in cm.decorator_list]
    if decs not in ([expr('contextlib.contextmanager')], [expr('contextmanager')]):
        raise Unsupported('default_tensordot_mode is not (only) a contextlib.contextmanager')
    st = find_fn(tree, 'set_default_tensordot_mode')
    gt = find_fn(tree, 'get_default_tensordot_mode')
    if st.decorator_list or gt.decorator_list:
        raise Unsupported('decorated set/get_default_tensordot_mode')
    # the module-level variable and its initial value
    init = None
    for n in tree.body:
        if isinstance(n, ast.Assign) and dump(n.targets[0]) == expr('_DEFAULT_TENSORDOT_MODE'):
            if not (isinstance(n.value, ast.Constant) and isinstance(n.value.value, str)):
                raise Unsupported('_DEFAULT_TENSORDOT_MODE initial value')
            init = n.value.value
    if init is None:
        raise Unsupported('_DEFAULT_TENSORDOT_MODE not found at module level')
    out = ['(* GENERATED by tr/gen_cache.py from symmray/abelian_core.py — do not edit. *)',
           'From Coq Require Import String.', 'From SV Require Import Base.Prelude Model.Cache.',
           'Open Scope Z_scope.', '',
           'Definition mode_global : string := %s.' % gstr('_DEFAULT_TENSORDOT_MODE'),
           'Definition mode_initial : string := %s.' % gstr(init),
           'Definition default_tensordot_mode_def : fundef :=\n  %s.' % fundef(cm),
           'Definition set_default_tensordot_mode_def : fundef :=\n  %s.' % fundef(st),
           'Definition get_default_tensordot_mode_def : fundef :=\n  %s.' % fundef(gt), '']
    return '\n'.join(out)


# ------------------------------------------------------------------ driver
def facts(repo):
    """everything the generated files say, as a Python dict (the harness reads it too)"""
    mods = modules(repo)
    ac = mods['abelian_core']
    check_hasher(ac)
    cf = find_fn(ac, 'cached_fuse_block_info')
    bh = find_fn(ac, 'BlockIndex.hashkey')
    sh = find_fn(ac, 'SubIndexInfo.hashkey')
    check_memo_shape(bh, 'BlockIndex')
    check_memo_shape(sh, 'SubIndexInfo')
    move, oldest, tolerant = cache_script(cf)
    sites, muts = attr_sites(mods)
    return {
        'fuse': fuse_components(cf), 'index': index_components(bh), 'subinfo': subinfo_components(sh),
        'reads': fuse_reads(find_fn(ac, 'calc_fuse_block_info')),
        'move_on_hit': move, 'pop_oldest': oldest, 'tolerant': tolerant,
        'sites': sites, 'mutations': muts, 'helpers': lru_helpers(mods),
    }


def cache_key(repo):
    F = facts(repo)
    b = lambda x: 'true' if x else 'false'
    out = ['(* GENERATED by tr/gen_cache.py from symmray/*.py — do not edit. *)',
           'From Coq Require Import String.', 'From SV Require Import Base.Prelude Model.Cache.',
           'Open Scope Z_scope.', '',
           '(* the tuple hashed in cached_fuse_block_info / BlockIndex.hashkey / SubIndexInfo.hashkey *)',
           'Definition fuse_key_components : list fuse_comp := %s.' % glist(F['fuse']),
           'Definition index_key_components : list index_comp := %s.' % glist(F['index']),
           'Definition subinfo_key_components : list subinfo_comp := %s.' % glist(F['subinfo']),
           '(* what calc_fuse_block_info reads of its arguments *)',
           'Definition fuse_reads : list fuse_comp := %s.' % glist(F['reads']),
           '(* shape of the LRU script of cached_fuse_block_info *)',
           'Definition fuse_cache_policy : policy := {| move_on_hit := %s; pop_oldest := %s |}.'
           % (b(F['move_on_hit']), b(F['pop_oldest'])),
           'Definition eviction_tolerant : bool := %s.' % b(F['tolerant']),
           '(* every assignment to a tracked attribute, package wide *)',
           'Definition attr_sites : list site := [\n  %s].' % ';\n  '.join(
               '{| s_func := %s; s_obj := %s; s_attr := %s; s_rhs := %s |}' % (gstr(f), gstr(o), a, k)
               for f, o, a, k in F['sites']),
           '(* in-place mutations of index tables, package wide *)',
           'Definition table_mutations : list string := %s.' % glist([gstr(m) for m in F['mutations']]),
           '(* functools.lru_cache helpers with their purity scan *)',
           'Definition lru_helpers : list helper := [\n  %s].' % ';\n  '.join(
               '{| h_name := %s; h_params := %s; h_global_writes := %s; h_arg_mutations := %s |}'
               % (gstr(n), glist([gstr(p) for p in ps]), glist([gstr(x) for x in gw]), glist([gstr(x) for x in am]))
               for n, ps, gw, am in F['helpers']), '']
    return '\n'.join(out)


def generate_all(repo):
    mods = modules(repo)
    return {'CacheKey.v': cache_key(repo), 'ModeCtx.v': mode_ctx(mods['abelian_core'])}


def generate_each(repo):
    return {'CacheKey.v': lambda: cache_key(repo), 'ModeCtx.v': lambda: mode_ctx(modules(repo)['abelian_core'])}


if __name__ == '__main__':
    repo = os.environ.get('SYMMRAY_REPO', '/repo')
    for k, v in generate_all(repo).items():
        print('(* ---- %s ---- *)' % k)
        print(v)
