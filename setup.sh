#!/bin/sh
# Offline build of the framework: regenerate Gen/*.v from /repo, full .vo build.
set -e
cd "$(dirname "$0")"
export PYTHONHASHSEED=0 PYTHONDONTWRITEBYTECODE=1
/venv/bin/python -c "
import sys; sys.path.insert(0,'harness'); import common
errs = common.regen()
print('regen:', errs or 'ok')
common.write_coqproject()
"
cd coq
timeout 3000 make -j16 2>&1 | grep -v '^Closed under' | tail -30
